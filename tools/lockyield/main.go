// lockyield rewrites Go source files so that every statement `x.Lock()` / `x.RLock()` is preceded by a
// verifhook.Yield("lock:<file>", "<line>", nil) call: a scheduling point at every lock acquisition of the file
// (plus "locked:" / "unlocked:" marks from which the simulator knows whether the goroutine holds a lock).
// It works on a scratch copy of the repository made by bin/check; /repo itself is never touched.
//
//	lockyield <copy-root> <relative-file>...
package main

import (
	"bytes"
	"fmt"
	"go/ast"
	"go/format"
	"go/parser"
	"go/token"
	"os"
	"path/filepath"
	"strconv"
	"strings"
)

const hookPath = "github.com/ipfs/go-graphsync/verifhook"

// lockKind classifies a statement: "lock" for x.Lock()/x.RLock(), "unlock" for x.Unlock()/x.RUnlock(),
// "deferunlock" for defer x.Unlock()/x.RUnlock().
func lockKind(s ast.Stmt) string {
	var call *ast.CallExpr
	deferred := false
	switch st := s.(type) {
	case *ast.ExprStmt:
		c, ok := st.X.(*ast.CallExpr)
		if !ok {
			return ""
		}
		call = c
	case *ast.DeferStmt:
		call, deferred = st.Call, true
	default:
		return ""
	}
	if len(call.Args) != 0 {
		return ""
	}
	sel, ok := call.Fun.(*ast.SelectorExpr)
	if !ok {
		return ""
	}
	switch sel.Sel.Name {
	case "Lock", "RLock":
		if !deferred {
			return "lock"
		}
	case "Unlock", "RUnlock":
		if deferred {
			return "deferunlock"
		}
		return "unlock"
	}
	return ""
}

var callNames map[string]bool

// callOf returns the call a statement consists of (x.f(...), v := x.f(...), _ = x.f(...), return x.f(...)).
func callOf(s ast.Stmt) *ast.CallExpr {
	var e ast.Expr
	switch st := s.(type) {
	case *ast.ExprStmt:
		e = st.X
	case *ast.AssignStmt:
		if len(st.Rhs) == 1 {
			e = st.Rhs[0]
		}
	case *ast.ReturnStmt:
		if len(st.Results) == 1 {
			e = st.Results[0]
		}
	}
	c, _ := e.(*ast.CallExpr)
	return c
}

func isNamedCall(s ast.Stmt) bool {
	if callNames == nil {
		return false
	}
	c := callOf(s)
	if c == nil {
		return false
	}
	switch f := c.Fun.(type) {
	case *ast.SelectorExpr:
		return callNames[f.Sel.Name]
	case *ast.Ident:
		return callNames[f.Name]
	}
	return false
}

func hook(kind, site string, line int) *ast.CallExpr {
	return &ast.CallExpr{
		Fun: &ast.SelectorExpr{X: ast.NewIdent("verifhook"), Sel: ast.NewIdent("Yield")},
		Args: []ast.Expr{
			&ast.BasicLit{Kind: token.STRING, Value: strconv.Quote(kind + ":" + site)},
			&ast.BasicLit{Kind: token.STRING, Value: strconv.Quote(strconv.Itoa(line))},
			ast.NewIdent("nil"),
		}}
}

// rewriteList puts a scheduling point ("lock:") before every lock acquisition and bookkeeping marks after every
// acquisition ("locked:") and release ("unlocked:"; for a deferred release, a deferred mark registered before it,
// so that it runs after it). The simulator keeps a per-goroutine count from the marks and uses a "lock:" point
// only where the goroutine holds no lock of an instrumented file.
func rewriteList(fset *token.FileSet, site string, list []ast.Stmt, n *int) []ast.Stmt {
	var out []ast.Stmt
	for _, s := range list {
		line := fset.Position(s.Pos()).Line
		switch lockKind(s) {
		case "lock":
			out = append(out, &ast.ExprStmt{X: hook("lock", site, line)}, s, &ast.ExprStmt{X: hook("locked", site, line)})
			*n++
		case "unlock":
			out = append(out, s, &ast.ExprStmt{X: hook("unlocked", site, line)})
		case "deferunlock":
			out = append(out, &ast.DeferStmt{Call: hook("unlocked", site, line)}, s)
		default:
			if isNamedCall(s) {
				out = append(out, &ast.ExprStmt{X: hook("call", site, line)})
				*n++
			}
			out = append(out, s)
		}
	}
	return out
}

func main() {
	if len(os.Args) < 3 {
		fmt.Fprintln(os.Stderr, "usage: lockyield <copy-root> <relative-file>...")
		os.Exit(2)
	}
	root := os.Args[1]
	for _, arg := range os.Args[2:] {
		// "file.go#Func1,Func2": only inside those functions (methods by bare name)
		calls := map[string]bool(nil)
		if i := strings.Index(arg, "@"); i >= 0 {
			// "file.go@name1,name2": also a scheduling point ("call:<file>") before every statement that is a call
			// of a function or method with one of these names (a hand-over to another goroutine, say)
			calls = map[string]bool{}
			for _, f := range strings.Split(arg[i+1:], ",") {
				calls[f] = true
			}
			arg = arg[:i]
		}
		callNames = calls
		rel, only := arg, map[string]bool(nil)
		if i := strings.Index(arg, "#"); i >= 0 {
			rel, only = arg[:i], map[string]bool{}
			for _, f := range strings.Split(arg[i+1:], ",") {
				only[f] = true
			}
		}
		path := filepath.Join(root, rel)
		fset := token.NewFileSet()
		f, err := parser.ParseFile(fset, path, nil, parser.ParseComments)
		if err != nil {
			fmt.Fprintln(os.Stderr, err)
			os.Exit(2)
		}
		n := 0
		ast.Inspect(f, func(nd ast.Node) bool {
			if fd, ok := nd.(*ast.FuncDecl); ok && only != nil && !only[fd.Name.Name] {
				return false
			}
			switch b := nd.(type) {
			case *ast.BlockStmt:
				b.List = rewriteList(fset, rel, b.List, &n)
			case *ast.CaseClause:
				b.Body = rewriteList(fset, rel, b.Body, &n)
			case *ast.CommClause:
				b.Body = rewriteList(fset, rel, b.Body, &n)
			}
			return true
		})
		if n > 0 {
			has := false
			for _, im := range f.Imports {
				if im.Path.Value == strconv.Quote(hookPath) {
					has = true
				}
			}
			if !has {
				spec := &ast.ImportSpec{Path: &ast.BasicLit{Kind: token.STRING, Value: strconv.Quote(hookPath)}}
				f.Decls = append([]ast.Decl{&ast.GenDecl{Tok: token.IMPORT, Specs: []ast.Spec{spec}}}, f.Decls...)
			}
		}
		var buf bytes.Buffer
		if err := format.Node(&buf, fset, f); err != nil {
			fmt.Fprintln(os.Stderr, err)
			os.Exit(2)
		}
		if err := os.WriteFile(path, buf.Bytes(), 0o644); err != nil {
			fmt.Fprintln(os.Stderr, err)
			os.Exit(2)
		}
		fmt.Printf("%s: %d lock yields\n", rel, n)
	}
}
