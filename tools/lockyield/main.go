// lockyield rewrites Go source files so that every statement `x.Lock()` / `x.RLock()` is preceded by a
// verifhook.Yield("lock:<file>", "<line>", nil) call: a scheduling point at every lock acquisition of the file.
// It works on a scratch copy of the repository made by bin/check; /repo itself is never touched.
//
//	lockyield <copy-root> <relative-file>...
package main

import (
	"bytes"
	"fmt"
	"go/ast"
	"go/format"
	"go/parser"
	"go/token"
	"os"
	"path/filepath"
	"strconv"
)

const hookPath = "github.com/ipfs/go-graphsync/verifhook"

func isLockCall(s ast.Stmt) bool {
	es, ok := s.(*ast.ExprStmt)
	if !ok {
		return false
	}
	call, ok := es.X.(*ast.CallExpr)
	if !ok || len(call.Args) != 0 {
		return false
	}
	sel, ok := call.Fun.(*ast.SelectorExpr)
	return ok && (sel.Sel.Name == "Lock" || sel.Sel.Name == "RLock")
}

func rewriteList(fset *token.FileSet, site string, list []ast.Stmt, n *int) []ast.Stmt {
	var out []ast.Stmt
	for _, s := range list {
		if isLockCall(s) {
			line := fset.Position(s.Pos()).Line
			out = append(out, &ast.ExprStmt{X: &ast.CallExpr{
				Fun: &ast.SelectorExpr{X: ast.NewIdent("verifhook"), Sel: ast.NewIdent("Yield")},
				Args: []ast.Expr{
					&ast.BasicLit{Kind: token.STRING, Value: strconv.Quote("lock:" + site)},
					&ast.BasicLit{Kind: token.STRING, Value: strconv.Quote(strconv.Itoa(line))},
					ast.NewIdent("nil"),
				}}})
			*n++
		}
		out = append(out, s)
	}
	return out
}

func main() {
	if len(os.Args) < 3 {
		fmt.Fprintln(os.Stderr, "usage: lockyield <copy-root> <relative-file>...")
		os.Exit(2)
	}
	root := os.Args[1]
	for _, rel := range os.Args[2:] {
		path := filepath.Join(root, rel)
		fset := token.NewFileSet()
		f, err := parser.ParseFile(fset, path, nil, parser.ParseComments)
		if err != nil {
			fmt.Fprintln(os.Stderr, err)
			os.Exit(2)
		}
		n := 0
		ast.Inspect(f, func(nd ast.Node) bool {
			switch b := nd.(type) {
			case *ast.BlockStmt:
				b.List = rewriteList(fset, rel, b.List, &n)
			case *ast.CaseClause:
				b.Body = rewriteList(fset, rel, b.Body, &n)
			case *ast.CommClause:
				b.Body = rewriteList(fset, rel, b.Body, &n)
			}
			return true
		})
		if n > 0 {
			has := false
			for _, im := range f.Imports {
				if im.Path.Value == strconv.Quote(hookPath) {
					has = true
				}
			}
			if !has {
				spec := &ast.ImportSpec{Path: &ast.BasicLit{Kind: token.STRING, Value: strconv.Quote(hookPath)}}
				f.Decls = append([]ast.Decl{&ast.GenDecl{Tok: token.IMPORT, Specs: []ast.Spec{spec}}}, f.Decls...)
			}
		}
		var buf bytes.Buffer
		if err := format.Node(&buf, fset, f); err != nil {
			fmt.Fprintln(os.Stderr, err)
			os.Exit(2)
		}
		if err := os.WriteFile(path, buf.Bytes(), 0o644); err != nil {
			fmt.Fprintln(os.Stderr, err)
			os.Exit(2)
		}
		fmt.Printf("%s: %d lock yields\n", rel, n)
	}
}
