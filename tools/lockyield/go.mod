module lockyield

go 1.22
