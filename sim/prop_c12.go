package sim

import (
	"bytes"
	"context"
	"encoding/binary"
	"fmt"
	"io"
	"sort"

	"github.com/ipfs/go-cid"

	"github.com/ipfs/go-graphsync"
	gsmsg "github.com/ipfs/go-graphsync/message"
	gsmsgv2 "github.com/ipfs/go-graphsync/message/v2"
	gsnet "github.com/ipfs/go-graphsync/network"
	"github.com/ipld/go-ipld-prime/datamodel"
	"github.com/ipld/go-ipld-prime/node/basicnode"
)

// c12: hostile bytes on some streams while an honest exchange runs on others.
type c12 struct {
	c02
	m       *Scripted // the hostile peer
	r       *Scripted // a scripted receiver, to inspect what decodes
	script  *Script
	nSent   int
	kinds   []string
	payload [][]byte
	valid   []bool // the mutated bytes still decode (harness's own decoder)
}

func newC12() Scenario { return &c12{c02: c02{prop: "C12"}} }

func (s *c12) Name() string { return "hostile-bytes" }

// reframe replaces the uvarint length prefix of a framed message after its body was edited.
func reframe(body []byte) []byte {
	var pre [binary.MaxVarintLen64]byte
	n := binary.PutUvarint(pre[:], uint64(len(body)))
	return append(append([]byte(nil), pre[:n]...), body...)
}

// mutateID rewrites the byte string holding one of the message's request IDs to another
// length, keeping the message otherwise well-formed CBOR with a correct frame.
func mutateID(t *Tape, framed []byte, ids [][]byte) ([]byte, bool) {
	_, n := binary.Uvarint(framed)
	if n <= 0 || len(ids) == 0 {
		return nil, false
	}
	body := framed[n:]
	id := ids[t.Draw(len(ids))]
	at := bytes.Index(body, id)
	if at < 1 || body[at-1] != 0x50 {
		return nil, false
	}
	k := []int{0, 1, 7, 15, 17, 23, 32}[t.Draw(7)]
	var nid []byte
	if k < 24 {
		nid = []byte{byte(0x40 + k)}
	} else {
		nid = []byte{0x58, byte(k)}
	}
	for i := 0; i < k; i++ {
		nid = append(nid, id[i%len(id)])
	}
	nb := append(append(append([]byte(nil), body[:at-1]...), nid...), body[at+16:]...)
	return reframe(nb), true
}

func mutateBytes(t *Tape, b []byte) ([]byte, string) {
	out := append([]byte(nil), b...)
	switch t.Draw(8) {
	case 0:
		n := 1 + t.Draw(4)
		for i := 0; i < n && len(out) > 0; i++ {
			j := t.Draw(len(out))
			out[j] ^= 1 << uint(t.Draw(8))
		}
		return out, "bitflip"
	case 1:
		if len(out) > 1 {
			out = out[:1+t.Draw(len(out)-1)]
		}
		return out, "truncate"
	case 2:
		// oversize length prefix
		return append([]byte{0xff, 0xff, 0xff, 0xff, 0x7f}, out...), "oversize-length"
	case 3:
		// unterminated varint
		return []byte{0x80, 0x80, 0x80, 0x80, 0x80, 0x80, 0x80, 0x80, 0x80, 0x80, 0x80}, "bad-varint"
	case 4:
		if len(out) > 2 {
			j := 1 + t.Draw(len(out)-1)
			ins := bytes.Repeat([]byte{byte(t.Draw(256))}, 1+t.Draw(8))
			out = append(out[:j], append(ins, out[j:]...)...)
		}
		return out, "insert"
	case 5:
		// splice: the second half of the message repeated
		if len(out) > 4 {
			out = append(out, out[len(out)/2:]...)
		}
		return out, "splice"
	case 6:
		// wrong kinds: overwrite a stretch with CBOR simple values
		if len(out) > 6 {
			j := 2 + t.Draw(len(out)-4)
			out[j] = []byte{0xf6, 0xf5, 0x00, 0x40, 0x80, 0xa0, 0x1b}[t.Draw(7)]
		}
		return out, "wrong-kind"
	default:
		return out, "unchanged"
	}
}

func (s *c12) Build(w *World) {
	t := w.Tape
	drawProfile(w)
	s.dag = GenDAG(t, GenCfg{MaxBlocks: 3 + t.Draw(10), MaxDepth: 2 + t.Draw(3)})
	s.sel, s.selDesc = AllSelector(8), "all"
	s.split = Split{Rq: map[cid.Cid]bool{}, Rs: map[cid.Cid]bool{}}
	for _, c := range s.dag.Order {
		s.split.Rs[c] = true
	}
	cfg := NodeCfg{GateReads: true, GateCommits: true}
	s.a = NewNode(w, "A", cfg)
	s.b = NewNode(w, "B", cfg)
	populate(s.b, s.dag, s.split.Rs)
	s.req = s.a.NewReq("r1", s.b, s.dag.Root, s.sel)
	s.m = NewScripted(w, "M")
	s.r = NewScripted(w, "R")
	handler := gsmsgv2.NewMessageHandler()
	s.script = NewScript(w, "M")
	n := 1 + t.Draw(5)
	for i := 0; i < n; i++ {
		msg := GenWellFormedMessage(t, fmt.Sprintf("h%d", i))
		var buf bytes.Buffer
		if err := handler.ToNet(s.m.ID, msg, &buf); err != nil || msg.Empty() {
			continue
		}
		mut, kind := mutateBytes(t, buf.Bytes())
		if t.Chance(200) {
			// well-formed CBOR, hostile content: a new request that leaves out what it must have,
			// or carries something that is not a selector
			id := ReqID(fmt.Sprintf("hostile-%d", i))
			root := s.dag.Root.Cid
			var sel datamodel.Node = AllSelector(3)
			hk := t.Draw(10)
			var hexts []graphsync.ExtensionData
			if hk >= 7 {
				// a complete, valid new request whose well-known extensions carry values of the wrong kind
				names := []graphsync.ExtensionName{graphsync.ExtensionDeDupByKey, graphsync.ExtensionDoNotSendCIDs, graphsync.ExtensionsDoNotSendFirstBlocks, graphsync.ExtensionName("sim/other")}
				vals := []datamodel.Node{nil, datamodel.Null, basicnode.NewInt(-3), basicnode.NewString("x"), basicnode.NewBytes([]byte{1, 2}), roundTripNode(mapNode(map[string]datamodel.Node{"a": basicnode.NewInt(1)})), roundTripNode(listNode(basicnode.NewString("not a link"), basicnode.NewInt(4)))}
				for k := 0; k < 1+t.Draw(3); k++ {
					hexts = append(hexts, graphsync.ExtensionData{Name: names[t.Draw(len(names))], Data: vals[t.Draw(len(vals))]})
				}
			}
			switch hk {
			case 0:
				sel = nil
			case 1:
				root = cid.Undef
			case 2:
				root, sel = cid.Undef, nil
			case 3:
				sel = basicnode.NewString("not a selector")
			case 4:
				sel = basicnode.NewInt(7)
			case 5:
				sel = roundTripNode(mapNode(map[string]datamodel.Node{"zz": basicnode.NewInt(1)}))
			case 6:
				sel = roundTripNode(mapNode(map[string]datamodel.Node{"R": mapNode(map[string]datamodel.Node{"l": basicnode.NewString("x")})}))
			}
			hm := gsmsg.NewMessage(map[graphsync.RequestID]gsmsg.GraphSyncRequest{id: gsmsg.NewRequest(id, root, sel, graphsync.Priority(1), hexts...)}, nil, nil)
			var hb bytes.Buffer
			if err := handler.ToNet(s.m.ID, hm, &hb); err == nil {
				mut, kind = hb.Bytes(), fmt.Sprintf("hostile-request-%d", hk)
			}
		} else if t.Chance(200) {
			var ids [][]byte
			for _, rq := range msg.Requests() {
				ids = append(ids, rq.ID().Bytes())
			}
			for _, rs := range msg.Responses() {
				ids = append(ids, rs.RequestID().Bytes())
			}
			if m2, ok := mutateID(t, buf.Bytes(), ids); ok {
				mut, kind = m2, "id-length"
			}
		}
		_, derr := handler.FromNet(s.m.ID, bytes.NewReader(mut))
		s.payload = append(s.payload, mut)
		s.valid = append(s.valid, derr == nil)
		s.kinds = append(s.kinds, kind)
		target := []*SimHost{s.a.Host, s.r.Host}[t.Draw(2)]
		s.script.Add(func() {
			s.nSent++
			// each hostile message on a stream of its own, written raw
			go func() {
				st, err := s.m.Host.NewStream(context.Background(), target.id, gsnet.ProtocolGraphsync_2_0_0)
				if err != nil {
					return
				}
				w.Effect("hostile %s -> %s %d bytes (%s)", s.m.Name, target.name, len(mut), kind)
				_, _ = st.Write(mut)
				_ = st.Close()
			}()
		})
	}
	w.AddProvider(func() []*Event {
		if !s.req.Issued {
			return []*Event{s.req.IssueEvent()}
		}
		return nil
	})
}

func (s *c12) Describe(w *World) string {
	return fmt.Sprintf("dag=%d hostile=%v decodable=%v", len(s.dag.Order), s.kinds, s.valid)
}

func (s *c12) Done(w *World) bool { return s.req.Done() && s.script.Done() && w.Quiet() }

func (s *c12) Final(w *World) *Violation {
	// R1 (process survival) is decided by the parent. R3: the honest exchange is untouched
	if v := checkSingle("C12", s.req, s.dag, s.sel, s.split, s.a.Store.Snapshot()); v != nil {
		v.Rule = "R3"
		v.Signature = "honest-exchange-affected:" + v.Signature
		return v
	}
	// R4: whatever decoded at the scripted receiver has blocks keyed by the CID of their own bytes
	s.r.mu.Lock()
	recv := s.r.Received
	s.r.mu.Unlock()
	for _, rm := range recv {
		for _, b := range rm.Msg.Blocks() {
			c, err := b.Cid().Prefix().Sum(b.RawData())
			if err != nil || !c.Equals(b.Cid()) {
				return &Violation{Property: "C12", Rule: "R4", Signature: "block-keyed-by-foreign-cid", Detail: fmt.Sprintf("delivered block keyed %s but its bytes hash to %v", shortCid(b.Cid()), c)}
			}
		}
		for _, rq := range rm.Msg.Requests() {
			if len(rq.ID().Bytes()) != 16 {
				return &Violation{Property: "C12", Rule: "R4", Signature: "request-id-length", Detail: fmt.Sprintf("request ID of %d bytes delivered", len(rq.ID().Bytes()))}
			}
		}
		for _, rs := range rm.Msg.Responses() {
			if len(rs.RequestID().Bytes()) != 16 {
				return &Violation{Property: "C12", Rule: "R4", Signature: "request-id-length", Detail: fmt.Sprintf("response request ID of %d bytes delivered", len(rs.RequestID().Bytes()))}
			}
		}
	}
	// R2: every undecodable message sent to the real node was reported as a receive error
	wantErrA := 0
	for _, wm := range w.Net.WireFor("M", "A") {
		// a stream that ends where a message could have ended (nothing, or nothing after a
		// complete length prefix: plain io.EOF) is an ended stream, not a malformed message;
		// one that ends inside the prefix or inside the body (io.ErrUnexpectedEOF) is malformed
		// (a complete frame whose content does not decode is malformed whatever error the decoder names, io.EOF included)
		if wm.Err != nil && (wm.Err != io.EOF || frameComplete(wm.Raw)) {
			wantErrA++
			// ... and its stream is reset by the node
			if wm.Delivered != 0 && w.Net.ResetWhy(wm.Stream) != "reset by reader" {
				return &Violation{Property: "C12", Rule: "R2", Signature: "malformed-stream-not-reset", Detail: fmt.Sprintf("stream %s carried an undecodable message (%v) and was not reset by the node (reset: %q)", wm.Stream, wm.Err, w.Net.ResetWhy(wm.Stream))}
			}
		}
	}
	gotErrA := 0
	for _, e := range s.a.RecvErrs {
		if e.Peer == "M" {
			gotErrA++
		}
	}
	if gotErrA < wantErrA {
		return &Violation{Property: "C12", Rule: "R2", Signature: "malformed-not-reported", Detail: fmt.Sprintf("%d undecodable message(s) sent to the node, %d receive error(s) reported", wantErrA, gotErrA)}
	}
	return nil
}

// mapNode builds a basic map node.
func mapNode(m map[string]datamodel.Node) datamodel.Node {
	nb := basicnode.Prototype.Map.NewBuilder()
	ma, _ := nb.BeginMap(int64(len(m)))
	keys := make([]string, 0, len(m))
	for k := range m {
		keys = append(keys, k)
	}
	sort.Strings(keys)
	for _, k := range keys {
		_ = ma.AssembleKey().AssignString(k)
		_ = ma.AssembleValue().AssignNode(m[k])
	}
	_ = ma.Finish()
	return nb.Build()
}

// frameComplete: the bytes hold a whole length-prefixed frame (so a decode failure is about its content).
func frameComplete(raw []byte) bool {
	l, n := binary.Uvarint(raw)
	return n > 0 && l > 0 && uint64(len(raw)-n) >= l
}

// listNode builds a basic list node.
func listNode(items ...datamodel.Node) datamodel.Node {
	nb := basicnode.Prototype.List.NewBuilder()
	la, _ := nb.BeginList(int64(len(items)))
	for _, it := range items {
		_ = la.AssembleValue().AssignNode(it)
	}
	_ = la.Finish()
	return nb.Build()
}
