package sim

import (
	"context"
	"fmt"
	"math"

	"github.com/ipfs/go-cid"
	"github.com/ipld/go-ipld-prime"
	"github.com/ipld/go-ipld-prime/datamodel"
	"github.com/ipld/go-ipld-prime/node/basicnode"
	"github.com/ipld/go-ipld-prime/traversal/selector"
	"github.com/ipld/go-ipld-prime/traversal/selector/builder"
	"github.com/libp2p/go-libp2p/core/peer"

	"github.com/ipfs/go-graphsync"
	gsmsg "github.com/ipfs/go-graphsync/message"
)

// specGen draws selector specs of every clause kind with recursion limits around 100 and none.
type specGen struct {
	t   *Tape
	ssb builder.SelectorSpecBuilder
}

func (g *specGen) limit() (selector.RecursionLimit, string) {
	switch g.t.Draw(8) {
	case 0:
		return selector.RecursionLimitNone(), "none"
	case 1:
		return selector.RecursionLimitDepth(101), "101"
	case 2:
		return selector.RecursionLimitDepth(100), "100"
	case 3:
		return selector.RecursionLimitDepth(99), "99"
	case 4:
		return selector.RecursionLimitDepth(1000000), "1000000"
	default:
		n := int64(1 + g.t.Draw(20))
		return selector.RecursionLimitDepth(n), fmt.Sprint(n)
	}
}

func (g *specGen) gen(depth int, inRec bool, edgeOK bool) (builder.SelectorSpec, string) {
	k := g.t.Draw(10)
	if depth >= 4 {
		if inRec && edgeOK {
			return g.ssb.ExploreRecursiveEdge(), "@"
		}
		return g.ssb.Matcher(), "."
	}
	switch k {
	case 0:
		s, d := g.gen(depth+1, inRec, true)
		return g.ssb.ExploreAll(s), "all(" + d + ")"
	case 1:
		s, d := g.gen(depth+1, inRec, true)
		return g.ssb.ExploreFields(func(b builder.ExploreFieldsSpecBuilder) { b.Insert("a", s) }), "fields(a:" + d + ")"
	case 2:
		s, d := g.gen(depth+1, inRec, true)
		return g.ssb.ExploreIndex(1, s), "idx(" + d + ")"
	case 3:
		s, d := g.gen(depth+1, inRec, true)
		return g.ssb.ExploreRange(0, 3, s), "rng(" + d + ")"
	case 4:
		s1, d1 := g.gen(depth+1, inRec, edgeOK)
		s2, d2 := g.gen(depth+1, inRec, edgeOK)
		return g.ssb.ExploreUnion(s1, s2), "union(" + d1 + "," + d2 + ")"
	case 5, 6:
		// a recursion (possibly nested inside another one)
		l, ld := g.limit()
		s, d := g.gen(depth+1, true, false)
		return g.ssb.ExploreRecursive(l, g.ssb.ExploreAll(s)), "R" + ld + "(all(" + d + "))"
	case 7:
		s, d := g.gen(depth+1, inRec, true)
		return g.ssb.ExploreInterpretAs("unixfs", s), "~(" + d + ")"
	case 8:
		if inRec && edgeOK {
			return g.ssb.ExploreRecursiveEdge(), "@"
		}
		return g.ssb.Matcher(), "."
	default:
		return g.ssb.Matcher(), "."
	}
}

// wrap nests the spec under n further clauses ("at any nesting depth"): one
// kind throughout, or the kinds in rotation.
func (g *specGen) wrap(s builder.SelectorSpec, d string, n int, kind int) (builder.SelectorSpec, string) {
	names := []string{"all", "fields", "idx", "rng", "~", "union", "R5"}
	if kind == 6 && n > 3 {
		n = 3 // nested recursions multiply the traversal; deep nesting is exercised with the other kinds
	}
	if kind == 5 && n > 8 {
		n = 8 // ipld-prime's ExploreUnion.Interests costs 2^nesting
	}
	for i := 0; i < n; i++ {
		k := kind
		if kind >= len(names) {
			k = i % (len(names) - 2)
		}
		switch k {
		case 0:
			s = g.ssb.ExploreAll(s)
		case 1:
			in := s
			s = g.ssb.ExploreFields(func(b builder.ExploreFieldsSpecBuilder) { b.Insert("a", in) })
		case 2:
			s = g.ssb.ExploreIndex(0, s)
		case 3:
			s = g.ssb.ExploreRange(0, 2, s)
		case 4:
			s = g.ssb.ExploreInterpretAs("unixfs", s)
		case 5:
			s = g.ssb.ExploreUnion(g.ssb.Matcher(), s)
		case 6:
			s = g.ssb.ExploreRecursive(selector.RecursionLimitDepth(5), g.ssb.ExploreUnion(g.ssb.ExploreAll(g.ssb.ExploreRecursiveEdge()), s))
		}
	}
	kn := "mixed"
	if kind < len(names) {
		kn = names[kind]
	}
	return s, fmt.Sprintf("%sx%d[%s]", kn, n, d)
}

// walkSpec is the independent verdict: does the spec contain, anywhere, a
// recursion that is unbounded or limited to a depth above maxDepth?
func walkSpec(n datamodel.Node, maxDepth int64) bool {
	switch n.Kind() {
	case datamodel.Kind_Map:
		it := n.MapIterator()
		for !it.Done() {
			k, v, _ := it.Next()
			ks, _ := k.AsString()
			if ks == selector.SelectorKey_ExploreRecursive {
				if lim, err := v.LookupByString(selector.SelectorKey_Limit); err == nil {
					if _, err := lim.LookupByString(selector.SelectorKey_LimitNone); err == nil {
						return true
					}
					if d, err := lim.LookupByString(selector.SelectorKey_LimitDepth); err == nil {
						if x, err := d.AsInt(); err == nil && x > maxDepth {
							return true
						}
					}
				}
			}
			if walkSpec(v, maxDepth) {
				return true
			}
		}
	case datamodel.Kind_List:
		it := n.ListIterator()
		for !it.Done() {
			_, v, _ := it.Next()
			if walkSpec(v, maxDepth) {
				return true
			}
		}
	}
	return false
}

// c08: generated selector specs sent to a default-configured responder amid other traffic.
type c08 struct {
	b      *Node
	a      *Node
	p      *Scripted
	script *Script
	ids    []graphsync.RequestID
	bad    []bool
	descs  []string
	other  *Req
	// an admission hook holds the scripted peer's requests; the operator releases them
	holdAll  bool
	held     map[graphsync.RequestID]int
	released map[graphsync.RequestID]bool
}

func newC08() Scenario { return &c08{} }

func (s *c08) Name() string     { return "default-selector-validation" }
func (s *c08) Property() string { return "C08" }

func (s *c08) Build(w *World) {
	t := w.Tape
	drawProfile(w)
	// default configuration: the default validator is what decides
	s.b = NewNode(w, "B", NodeCfg{GateReads: true})
	d := GenDAG(t, GenCfg{MaxBlocks: 4 + t.Draw(6), MaxDepth: 3})
	for _, c := range d.Order {
		s.b.Store.Put(c, d.Blocks[c])
	}
	// other traffic: an honest real requestor
	s.a = NewNode(w, "A", NodeCfg{GateReads: true, GateCommits: true})
	s.other = s.a.NewReq("bg", s.b, d.Root, AllSelector(5))
	s.p = NewScripted(w, "P")
	s.script = NewScript(w, "P")
	g := &specGen{t: t, ssb: builder.NewSelectorSpecBuilder(basicnode.Prototype.Any)}
	n := 1 + t.Draw(5)
	for i := 0; i < n; i++ {
		var spec ipld.Node
		var desc string
		for try := 0; try < 5; try++ {
			sp, dd := g.gen(0, false, false)
			if t.Chance(350) {
				n := []int{1, 3, 8, 15, 16, 17, 31, 32, 33, 64, 100, 150}[t.Draw(12)]
				sp, dd = g.wrap(sp, dd, n, t.Draw(8))
			}
			nd := sp.Node()
			if _, err := selector.ParseSelector(nd); err == nil {
				spec, desc = nd, dd
				break
			}
		}
		if spec == nil {
			continue
		}
		id := ReqID(fmt.Sprintf("c08-%d", i))
		s.ids = append(s.ids, id)
		cs, _ := CanonicalSelector(spec)
		s.bad = append(s.bad, walkSpec(cs, 100))
		s.descs = append(s.descs, desc)
		rq := gsmsg.NewRequest(id, d.Root.Cid, spec, graphsync.Priority(math.MaxInt32))
		s.script.Add(func() {
			s.p.Send(s.b.ID, gsmsg.NewMessage(map[graphsync.RequestID]gsmsg.GraphSyncRequest{id: rq}, nil, nil))
		})
	}
	// An admission hook that holds every request of that peer without validating it (validation is left to the
	// default validator), and an operator who lets held requests go: a held request is still an unvalidated one.
	// (1 run in 4, from the tape's digest.)
	s.held, s.released = map[graphsync.RequestID]int{}, map[graphsync.RequestID]bool{}
	if t.Digest()%4 == 0 {
		s.holdAll = true
		s.b.OnIncomingRequest = func(p peer.ID, r graphsync.RequestData, a graphsync.IncomingRequestHookActions) {
			if p == s.p.ID {
				s.held[r.ID()] = w.Step
				w.Probe("c08-request-held-by-admission-hook")
				a.PauseResponse()
			}
		}
	}
	w.AddProvider(func() []*Event {
		var evs []*Event
		if !s.other.Issued {
			evs = append(evs, s.other.IssueEvent())
		}
		for _, id := range s.ids {
			id := id
			if at, ok := s.held[id]; ok && !s.released[id] && w.Step > at+2 {
				evs = append(evs, Inject("api", "act|B|unpause|"+shortReq(id), func(string) {
					s.released[id] = true
					go func() {
						err := s.b.GS.Unpause(context.Background(), id)
						w.Effect("act B unpause %s returned %v", shortReq(id), err != nil)
					}()
				}))
			}
		}
		return evs
	})
}

func (s *c08) Describe(w *World) string {
	return fmt.Sprintf("specs=%v bad=%v held-by-hook=%v", s.descs, s.bad, s.holdAll)
}

func (s *c08) Done(w *World) bool {
	if !s.script.Done() || !s.other.Done() {
		return false
	}
	wire := w.Net.WireFor("B", "P")
	for _, id := range s.ids {
		if !terminalSeen(ResponderOutput(wire, id)) {
			return false
		}
	}
	return w.Quiet()
}
func (s *c08) Heal(w *World)                 {}
func (s *c08) Invariant(w *World) *Violation { return nil }

func (s *c08) Final(w *World) *Violation {
	wire := w.Net.WireFor("B", "P")
	for i, id := range s.ids {
		out := ResponderOutput(wire, id)
		if !terminalSeen(out) {
			return &Violation{Property: "C08", Rule: "R1", Signature: "no-verdict", Detail: fmt.Sprintf("spec %s got no terminal status", s.descs[i])}
		}
		last := out.Statuses[len(out.Statuses)-1]
		rejected := last == graphsync.RequestRejected
		if s.bad[i] && !rejected {
			sig := "unbounded-or-too-deep-accepted"
			if containsInterpretAs(s.descs[i]) {
				sig += ":under-interpret-as"
			}
			return &Violation{Property: "C08", Rule: "R1", Signature: sig, Detail: fmt.Sprintf("spec %s contains a recursion that is unbounded or deeper than 100 but the responder answered with status %d", s.descs[i], last)}
		}
		if !s.bad[i] && rejected {
			return &Violation{Property: "C08", Rule: "R2", Signature: "bounded-rejected", Detail: fmt.Sprintf("spec %s has only recursions limited to 100 or less but was rejected", s.descs[i])}
		}
	}
	return nil
}

func containsInterpretAs(d string) bool {
	for i := 0; i+1 < len(d); i++ {
		if d[i] == '~' {
			return true
		}
	}
	return false
}

var _ cid.Cid
