package sim

import (
	"bytes"
	"crypto/sha256"
	"encoding/hex"
	"fmt"
	"io"
	"sort"
	"strings"

	"github.com/ipfs/go-cid"
	"github.com/ipld/go-ipld-prime"
	"github.com/ipld/go-ipld-prime/codec/dagcbor"
	"github.com/ipld/go-ipld-prime/codec/dagjson"
	_ "github.com/ipld/go-ipld-prime/codec/raw"
	"github.com/ipld/go-ipld-prime/datamodel"
	"github.com/ipld/go-ipld-prime/linking"
	cidlink "github.com/ipld/go-ipld-prime/linking/cid"
	"github.com/ipld/go-ipld-prime/node/basicnode"
	"github.com/ipld/go-ipld-prime/traversal"
	"github.com/ipld/go-ipld-prime/traversal/selector"
	"github.com/ipld/go-ipld-prime/traversal/selector/builder"
)

// DAG is a generated universe of blocks.
type DAG struct {
	Root   cidlink.Link
	Blocks map[cid.Cid][]byte
	Order  []cid.Cid // generation order (children before parents)
	Kids   map[cid.Cid][]cid.Cid
}

// GenCfg bounds the DAG generator.
type GenCfg struct {
	MaxBlocks int
	MaxDepth  int
	BlockPad  int // extra bytes per block
	Share     int // permille: reuse an existing block as a child
	Identity  int // permille: leaf is an identity-hash CID
	Empty     int // permille: leaf is the empty raw block
	Alias     int // permille: leaf is a raw block holding the bytes of an existing dag-cbor block (same multihash, other codec)
}

// field names include one that is a string prefix of its neighbour ("a"/"ab"):
// path comparisons must work on segments, not on text
var fieldNames = []string{"a", "ab", "b", "c", "d"}

type dagGen struct {
	t    *Tape
	cfg  GenCfg
	d    *DAG
	lsys ipld.LinkSystem
	n    int
}

func cborProto() cidlink.LinkPrototype {
	return cidlink.LinkPrototype{Prefix: cid.Prefix{Version: 1, Codec: 0x71, MhType: 0x12, MhLength: 32}}
}
func rawProto() cidlink.LinkPrototype {
	return cidlink.LinkPrototype{Prefix: cid.Prefix{Version: 1, Codec: 0x55, MhType: 0x12, MhLength: 32}}
}
func identityProto() cidlink.LinkPrototype {
	return cidlink.LinkPrototype{Prefix: cid.Prefix{Version: 1, Codec: 0x55, MhType: 0x00, MhLength: -1}}
}

// GenDAG builds a random DAG from the tape.
func GenDAG(t *Tape, cfg GenCfg) *DAG {
	g := &dagGen{t: t, cfg: cfg, d: &DAG{Blocks: map[cid.Cid][]byte{}, Kids: map[cid.Cid][]cid.Cid{}}}
	g.lsys = cidlink.DefaultLinkSystem()
	g.lsys.TrustedStorage = true
	var cur *bytes.Buffer
	g.lsys.StorageWriteOpener = func(linking.LinkContext) (io.Writer, linking.BlockWriteCommitter, error) {
		cur = &bytes.Buffer{}
		buf := cur
		return buf, func(l datamodel.Link) error {
			c := l.(cidlink.Link).Cid
			if _, ok := g.d.Blocks[c]; !ok {
				g.d.Blocks[c] = append([]byte(nil), buf.Bytes()...)
				g.d.Order = append(g.d.Order, c)
			}
			return nil
		}, nil
	}
	_ = cur
	root := g.block(0, true)
	g.d.Root = root
	return g.d
}

func (g *dagGen) store(p cidlink.LinkPrototype, n ipld.Node, kids []cid.Cid) cidlink.Link {
	l, err := g.lsys.Store(linking.LinkContext{}, p, n)
	if err != nil {
		panic(err)
	}
	cl := l.(cidlink.Link)
	g.d.Kids[cl.Cid] = kids
	return cl
}

func (g *dagGen) leaf() cidlink.Link {
	g.n++
	pad := g.cfg.BlockPad
	data := []byte(fmt.Sprintf("leaf-%d-", g.n))
	for i := 0; i < pad; i++ {
		data = append(data, byte('a'+i%26))
	}
	p := rawProto()
	if g.cfg.Empty > 0 && g.t.Chance(g.cfg.Empty) {
		return g.store(p, basicnode.NewBytes([]byte{}), nil)
	}
	if g.cfg.Alias > 0 && g.t.Chance(g.cfg.Alias) {
		var cbor []cid.Cid
		for _, c := range g.d.Order {
			if c.Prefix().Codec == 0x71 {
				cbor = append(cbor, c)
			}
		}
		if len(cbor) > 0 {
			src := cbor[g.t.Draw(len(cbor))]
			return g.store(p, basicnode.NewBytes(append([]byte(nil), g.d.Blocks[src]...)), nil)
		}
	}
	if g.t.Chance(g.cfg.Identity) {
		p = identityProto()
		data = []byte(fmt.Sprintf("id%d", g.n))
	}
	return g.store(p, basicnode.NewBytes(data), nil)
}

// child returns a link for a child position: a shared existing block, a new
// block, or nil for "no link here".
func (g *dagGen) child(depth int) *cidlink.Link {
	if len(g.d.Order) > 0 && g.t.Chance(g.cfg.Share) {
		c := g.d.Order[g.t.Draw(len(g.d.Order))]
		return &cidlink.Link{Cid: c}
	}
	if g.n >= g.cfg.MaxBlocks {
		return nil
	}
	if depth >= g.cfg.MaxDepth || g.t.Chance(300) {
		l := g.leaf()
		return &l
	}
	l := g.block(depth+1, false)
	return &l
}

// value builds one field value; kids collects links in encounter order.
func (g *dagGen) value(depth, nest int, kids *[]cid.Cid) ipld.Node {
	k := g.t.Draw(10)
	switch {
	case k <= 4: // link
		if l := g.child(depth); l != nil {
			*kids = append(*kids, l.Cid)
			return basicnode.NewLink(*l)
		}
		return basicnode.NewInt(int64(g.t.Draw(100)))
	case k == 5:
		return basicnode.NewString(fmt.Sprintf("s%d", g.t.Draw(50)))
	case k == 6:
		return basicnode.NewInt(int64(g.t.Draw(1000)))
	case k <= 8 && nest < 2: // inline map
		nb := basicnode.Prototype.Map.NewBuilder()
		cnt := 1 + g.t.Draw(3)
		ma, _ := nb.BeginMap(int64(cnt))
		for i := 0; i < cnt; i++ {
			_ = ma.AssembleKey().AssignString(fieldNames[i])
			_ = ma.AssembleValue().AssignNode(g.value(depth, nest+1, kids))
		}
		_ = ma.Finish()
		return nb.Build()
	case nest < 2: // inline list
		nb := basicnode.Prototype.List.NewBuilder()
		cnt := 1 + g.t.Draw(3)
		if g.t.Chance(60) {
			cnt = 11 + g.t.Draw(3) // two-digit indices: "1" is a textual prefix of "10".."13"
		}
		la, _ := nb.BeginList(int64(cnt))
		for i := 0; i < cnt; i++ {
			_ = la.AssembleValue().AssignNode(g.value(depth, nest+1, kids))
		}
		_ = la.Finish()
		return nb.Build()
	}
	return basicnode.NewInt(int64(g.t.Draw(7)))
}

func (g *dagGen) block(depth int, root bool) cidlink.Link {
	g.n++
	id := g.n
	var kids []cid.Cid
	nb := basicnode.Prototype.Map.NewBuilder()
	cnt := 1 + g.t.Draw(5)
	if root && cnt < 2 {
		cnt = 2
	}
	ma, _ := nb.BeginMap(int64(cnt + 1))
	for i := 0; i < cnt; i++ {
		_ = ma.AssembleKey().AssignString(fieldNames[i])
		var v ipld.Node
		if root && i == 0 {
			// the root always has at least one link if budget allows
			if l := g.child(depth); l != nil {
				kids = append(kids, l.Cid)
				v = basicnode.NewLink(*l)
			}
		}
		if v == nil {
			v = g.value(depth, 0, &kids)
		}
		_ = ma.AssembleValue().AssignNode(v)
	}
	_ = ma.AssembleKey().AssignString("n")
	pad := ""
	for i := 0; i < g.cfg.BlockPad; i++ {
		pad += string(rune('a' + i%26))
	}
	_ = ma.AssembleValue().AssignString(fmt.Sprintf("%d%s", id, pad))
	_ = ma.Finish()
	return g.store(cborProto(), nb.Build(), kids)
}

// ---- selectors ---------------------------------------------------------------

type selGen struct {
	t        *Tape
	ssb      builder.SelectorSpecBuilder
	last     builder.SelectorSpec
	lastDesc string
}

// GenSelector draws a selector spec that parses and has only bounded recursion.
func GenSelector(t *Tape, maxLimit int) (ipld.Node, string) {
	g := &selGen{t: t, ssb: builder.NewSelectorSpecBuilder(basicnode.Prototype.Any)}
	kind := t.Draw(6)
	var spec builder.SelectorSpec
	var desc string
	limit := int64(1 + t.Draw(maxLimit))
	if t.Chance(200) {
		limit = 64
	}
	switch kind {
	case 0, 1:
		spec = g.ssb.ExploreRecursive(selector.RecursionLimitDepth(limit), g.ssb.ExploreAll(g.ssb.ExploreRecursiveEdge()))
		desc = fmt.Sprintf("R%d(all(@))", limit)
	case 2:
		spec = g.ssb.ExploreRecursive(selector.RecursionLimitDepth(limit), g.ssb.ExploreUnion(g.ssb.Matcher(), g.ssb.ExploreAll(g.ssb.ExploreRecursiveEdge())))
		desc = fmt.Sprintf("R%d(union(.,all(@)))", limit)
	default:
		var d string
		inner, d := g.gen(0, true, false)
		g.last, g.lastDesc = inner, d
		spec = g.ssb.ExploreRecursive(selector.RecursionLimitDepth(limit), inner)
		desc = fmt.Sprintf("R%d(%s)", limit, d)
		if kind == 5 {
			spec, desc = g.gen(0, false, false)
		}
	}
	if kind >= 3 && kind != 5 {
		// go-ipld-prime's recursive-edge substitution is exponential in
		// (number of edges x path depth); keep such selectors shallow.
		edges := strings.Count(desc, "@")
		if edges > 1 && limit > 4 {
			limit = int64(1 + t.Draw(4))
			inner, d := g.last, g.lastDesc
			spec = g.ssb.ExploreRecursive(selector.RecursionLimitDepth(limit), inner)
			desc = fmt.Sprintf("R%d(%s)", limit, d)
		}
	}
	n := spec.Node()
	if _, err := selector.ParseSelector(n); err != nil {
		spec = g.ssb.ExploreRecursive(selector.RecursionLimitDepth(limit), g.ssb.ExploreAll(g.ssb.ExploreRecursiveEdge()))
		return spec.Node(), fmt.Sprintf("R%d(all(@))!", limit)
	}
	return n, desc
}

// gen draws a selector clause. edgeOK is false until at least one exploring
// clause separates the position from the enclosing ExploreRecursive (go-ipld-prime
// panics on an edge with no explored parent).
func (g *selGen) gen(depth int, inRec, edgeOK bool) (builder.SelectorSpec, string) {
	k := g.t.Draw(8)
	if depth >= 3 || ((k == 6) && inRec && !edgeOK) {
		if inRec && edgeOK {
			return g.ssb.ExploreRecursiveEdge(), "@"
		}
		if inRec {
			return g.ssb.ExploreAll(g.ssb.ExploreRecursiveEdge()), "all(@)"
		}
		return g.ssb.Matcher(), "."
	}
	switch k {
	case 0, 1:
		s, d := g.gen(depth+1, inRec, true)
		return g.ssb.ExploreAll(s), "all(" + d + ")"
	case 2:
		n := 1 + g.t.Draw(3)
		descs := ""
		type kv struct {
			k string
			s builder.SelectorSpec
		}
		var kvs []kv
		for i := 0; i < n; i++ {
			s, d := g.gen(depth+1, inRec, true)
			name := fieldNames[g.t.Draw(len(fieldNames))]
			dup := false
			for _, e := range kvs {
				if e.k == name {
					dup = true
				}
			}
			if dup {
				continue
			}
			kvs = append(kvs, kv{name, s})
			descs += name + ":" + d + ","
		}
		return g.ssb.ExploreFields(func(b builder.ExploreFieldsSpecBuilder) {
			for _, e := range kvs {
				b.Insert(e.k, e.s)
			}
		}), "fields(" + descs + ")"
	case 3:
		s, d := g.gen(depth+1, inRec, true)
		i := g.t.Draw(3)
		return g.ssb.ExploreIndex(int64(i), s), fmt.Sprintf("idx%d(%s)", i, d)
	case 4:
		s, d := g.gen(depth+1, inRec, true)
		a := g.t.Draw(2)
		b := a + 1 + g.t.Draw(2)
		return g.ssb.ExploreRange(int64(a), int64(b), s), fmt.Sprintf("rng%d-%d(%s)", a, b, d)
	case 5:
		s1, d1 := g.gen(depth+1, inRec, edgeOK)
		s2, d2 := g.gen(depth+1, inRec, edgeOK)
		return g.ssb.ExploreUnion(s1, s2), "union(" + d1 + "," + d2 + ")"
	case 6:
		if inRec {
			return g.ssb.ExploreRecursiveEdge(), "@"
		}
		return g.ssb.Matcher(), "."
	default:
		if inRec {
			return g.ssb.ExploreAll(g.ssb.ExploreRecursiveEdge()), "all(@)"
		}
		return g.ssb.ExploreAll(g.ssb.Matcher()), "all(.)"
	}
}

// AllSelector is the bounded explore-everything selector.
func AllSelector(limit int64) ipld.Node {
	ssb := builder.NewSelectorSpecBuilder(basicnode.Prototype.Any)
	return ssb.ExploreRecursive(selector.RecursionLimitDepth(limit), ssb.ExploreAll(ssb.ExploreRecursiveEdge())).Node()
}

// ---- reference traversal -----------------------------------------------------

// Visit is one visited node of a traversal.
type Visit struct {
	Path      string
	Digest    string
	LastPath  string
	LastBlock string
}

func (v Visit) String() string {
	return fmt.Sprintf("%q %s @%q:%s", v.Path, v.Digest, v.LastPath, v.LastBlock)
}

// Load is one link load of a traversal.
type Load struct {
	Path  string
	Cid   cid.Cid
	Found bool
}

// RefResult is the outcome of the reference traversal.
type RefResult struct {
	Visits []Visit
	Loads  []Load
	Err    error
	// RootMissing is set when the root itself could not be resolved.
	RootMissing bool
	Panicked    bool
}

// Resolver decides how a link at a path is resolved in the reference walk.
type Resolver func(path string, c cid.Cid) ([]byte, bool)

// NodeDigest is a short content hash of a node.
func NodeDigest(n ipld.Node) string {
	if n == nil {
		return "nil"
	}
	var buf bytes.Buffer
	if err := dagcbor.Encode(n, &buf); err != nil {
		return "ERR:" + n.Kind().String()
	}
	h := sha256.Sum256(buf.Bytes())
	return hex.EncodeToString(h[:5])
}

func shortCid(c cid.Cid) string {
	s := c.String()
	if len(s) > 8 {
		return s[len(s)-8:]
	}
	return s
}

func linkStr(l datamodel.Link) string {
	if l == nil {
		return "-"
	}
	if cl, ok := l.(cidlink.Link); ok {
		return shortCid(cl.Cid)
	}
	return l.String()
}

// CanonicalSelector returns the selector as it looks after a trip over the
// wire (dag-cbor sorts map keys), and whether that differs from the input in
// the order of any map.
func CanonicalSelector(sel ipld.Node) (ipld.Node, bool) {
	var buf bytes.Buffer
	if err := dagcbor.Encode(sel, &buf); err != nil {
		return sel, false
	}
	nb := basicnode.Prototype.Any.NewBuilder()
	if err := dagcbor.Decode(nb, bytes.NewReader(buf.Bytes())); err != nil {
		return sel, false
	}
	out := nb.Build()
	return out, !sameOrder(sel, out)
}

func sameOrder(a, b ipld.Node) bool {
	if a.Kind() != b.Kind() {
		return false
	}
	switch a.Kind() {
	case datamodel.Kind_Map:
		ia, ib := a.MapIterator(), b.MapIterator()
		for !ia.Done() {
			if ib.Done() {
				return false
			}
			ka, va, _ := ia.Next()
			kb, vb, _ := ib.Next()
			sa, _ := ka.AsString()
			sb, _ := kb.AsString()
			if sa != sb || !sameOrder(va, vb) {
				return false
			}
		}
		return ib.Done()
	case datamodel.Kind_List:
		ia, ib := a.ListIterator(), b.ListIterator()
		for !ia.Done() {
			if ib.Done() {
				return false
			}
			_, va, _ := ia.Next()
			_, vb, _ := ib.Next()
			if !sameOrder(va, vb) {
				return false
			}
		}
		return ib.Done()
	}
	return true
}

// Ref runs a plain go-ipld-prime selector walk with no graphsync code.
func Ref(root cidlink.Link, sel ipld.Node, resolve Resolver, linkBudget int64) (res RefResult) {
	defer func() {
		if r := recover(); r != nil {
			res.Err = fmt.Errorf("reference traversal panicked: %v", r)
			res.Panicked = true
		}
	}()
	lsys := cidlink.DefaultLinkSystem()
	lsys.TrustedStorage = true
	lsys.StorageReadOpener = func(lc linking.LinkContext, l datamodel.Link) (io.Reader, error) {
		c := l.(cidlink.Link).Cid
		p := lc.LinkPath.String()
		data, ok := resolve(p, c)
		res.Loads = append(res.Loads, Load{Path: p, Cid: c, Found: ok})
		if !ok {
			return nil, traversal.SkipMe{}
		}
		return bytes.NewReader(data), nil
	}
	nd, err := lsys.Load(linking.LinkContext{}, root, basicnode.Prototype.Any)
	if err != nil {
		res.RootMissing = true
		res.Err = err
		return
	}
	s, err := selector.ParseSelector(sel)
	if err != nil {
		res.Err = err
		return
	}
	var budget *traversal.Budget
	if linkBudget > 0 {
		budget = &traversal.Budget{NodeBudget: 1 << 60, LinkBudget: linkBudget}
	}
	res.Err = traversal.Progress{
		Cfg: &traversal.Config{
			LinkSystem: lsys,
			LinkTargetNodePrototypeChooser: func(datamodel.Link, linking.LinkContext) (datamodel.NodePrototype, error) {
				return basicnode.Prototype.Any, nil
			},
		},
		Budget: budget,
	}.WalkAdv(nd, s, func(p traversal.Progress, n ipld.Node, r traversal.VisitReason) error {
		res.Visits = append(res.Visits, Visit{Path: p.Path.String(), Digest: NodeDigest(n), LastPath: p.LastBlock.Path.String(), LastBlock: linkStr(p.LastBlock.Link)})
		return nil
	})
	return
}

func dagjsonEncode(n ipld.Node, w io.Writer) error { return dagjson.Encode(n, w) }

// SortedCids returns the keys of a block map in a stable order.
func SortedCids(m map[cid.Cid][]byte) []cid.Cid {
	out := make([]cid.Cid, 0, len(m))
	for c := range m {
		out = append(out, c)
	}
	sort.Slice(out, func(i, j int) bool { return out[i].KeyString() < out[j].KeyString() })
	return out
}
