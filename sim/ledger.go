package sim

import (
	"fmt"
	"sync"

	"github.com/libp2p/go-libp2p/core/peer"

	"github.com/ipfs/go-graphsync/allocator"
)

// ledgerAlloc is the seam between the real message queue and the real
// allocator: a pass-through that keeps its own books, so that "every reserved
// byte is returned exactly once" is checked per operation and not only as a
// zero balance at the end (a double release is clamped at zero by the
// allocator and would otherwise be invisible).
type ledgerAlloc struct {
	w     *World
	inner *allocator.Allocator
	name  func(peer.ID) string

	mu          sync.Mutex
	outstanding map[peer.ID]uint64 // granted and neither released nor wiped
	granted     map[peer.ID]uint64
	released    map[peer.ID]uint64
	wiped       map[peer.ID]uint64
	grantsBySz  map[string]int // peer/size -> grants
	pending     []*ledgerPending
	viol        *Violation
	violPeer    string
}

type ledgerPending struct {
	p    peer.ID
	size uint64
	in   <-chan error
	out  chan error
	// waited: the answer did not come at once
	waited bool
}

func newLedgerAlloc(w *World, inner *allocator.Allocator, name func(peer.ID) string) *ledgerAlloc {
	return &ledgerAlloc{w: w, inner: inner, name: name, outstanding: map[peer.ID]uint64{}, granted: map[peer.ID]uint64{},
		released: map[peer.ID]uint64{}, wiped: map[peer.ID]uint64{}, grantsBySz: map[string]int{}}
}

func (l *ledgerAlloc) grant(p peer.ID, size uint64) {
	l.outstanding[p] += size
	l.granted[p] += size
	l.grantsBySz[fmt.Sprintf("%s/%d", l.name(p), size)]++
}

// poll forwards the results the allocator has produced for waiting allocations (caller holds mu).
func (l *ledgerAlloc) poll() {
	rest := l.pending[:0]
	for _, pa := range l.pending {
		select {
		case err := <-pa.in:
			if err == nil {
				l.grant(pa.p, pa.size)
			}
			if pa.waited {
				// several waiting reservations can be answered by one release; their callers
				// would race for the queue's lock: let them go one at a time (a barrier each,
				// keyed by the reservation, released in key order once everything has settled)
				pa := pa
				go func() {
					l.w.Park("barrier", fmt.Sprintf("barrier|grant|%s|%06d", l.name(pa.p), pa.size))
					pa.out <- err
				}()
			} else {
				pa.out <- err
			}
		default:
			pa.waited = true
			rest = append(rest, pa)
		}
	}
	l.pending = rest
}

func (l *ledgerAlloc) AllocateBlockMemory(p peer.ID, amount uint64) <-chan error {
	l.mu.Lock()
	l.w.markLock(+1)
	defer l.mu.Unlock()
	defer l.w.markLock(-1)
	pa := &ledgerPending{p: p, size: amount, in: l.inner.AllocateBlockMemory(p, amount), out: make(chan error, 1)}
	l.pending = append(l.pending, pa)
	l.poll()
	return pa.out
}

func (l *ledgerAlloc) ReleaseBlockMemory(p peer.ID, amount uint64) error {
	// queues of different peers can finish sends in the same step (one clock jump ends two
	// stalled sends); whose release reaches the shared allocator first decides which waiting
	// reservation is answered: one release at a time, in peer order
	l.w.Park("barrier", "barrier|release|"+l.name(p))
	l.mu.Lock()
	l.w.markLock(+1)
	defer l.mu.Unlock()
	defer l.w.markLock(-1)
	if amount > l.outstanding[p] {
		if l.viol == nil {
			l.violPeer = l.name(p)
			l.viol = &Violation{Property: "C15", Rule: "R2", Signature: "released-more-than-reserved",
				Detail: fmt.Sprintf("peer %s: release of %d bytes with only %d reserved and not yet returned (granted %d, released %d, wiped at queue shutdown %d): some reservation is being returned more than once", l.name(p), amount, l.outstanding[p], l.granted[p], l.released[p], l.wiped[p])}
		}
		l.released[p] += l.outstanding[p]
		l.outstanding[p] = 0
	} else {
		l.outstanding[p] -= amount
		l.released[p] += amount
	}
	err := l.inner.ReleaseBlockMemory(p, amount)
	l.poll()
	return err
}

func (l *ledgerAlloc) ReleasePeerMemory(p peer.ID) error {
	l.w.Park("barrier", "barrier|release|"+l.name(p))
	l.mu.Lock()
	l.w.markLock(+1)
	defer l.mu.Unlock()
	defer l.w.markLock(-1)
	l.wiped[p] += l.outstanding[p]
	l.outstanding[p] = 0
	err := l.inner.ReleasePeerMemory(p)
	l.poll()
	return err
}

// Grants reports how many reservations of exactly this size the peer was granted.
func (l *ledgerAlloc) Grants(peerName string, size uint64) int {
	l.mu.Lock()
	l.w.markLock(+1)
	defer l.mu.Unlock()
	defer l.w.markLock(-1)
	return l.grantsBySz[fmt.Sprintf("%s/%d", peerName, size)]
}

func (l *ledgerAlloc) Violation() *Violation {
	l.mu.Lock()
	l.w.markLock(+1)
	defer l.mu.Unlock()
	defer l.w.markLock(-1)
	return l.viol
}

func (l *ledgerAlloc) Outstanding(p peer.ID) uint64 {
	l.mu.Lock()
	l.w.markLock(+1)
	defer l.mu.Unlock()
	defer l.w.markLock(-1)
	return l.outstanding[p]
}
