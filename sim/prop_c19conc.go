package sim

import (
	"context"
	"fmt"

	"github.com/ipld/go-ipld-prime"
	cidlink "github.com/ipld/go-ipld-prime/linking/cid"
	"github.com/libp2p/go-libp2p/core/peer"

	"github.com/ipfs/go-graphsync"
	"github.com/ipfs/go-graphsync/responsemanager/responseassembler"
	"github.com/ipfs/go-graphsync/verifhook"
)

// c19conc: the requests of one peer are served by different goroutines (as a responder's workers do), so two
// link traversals can be inside the tracker at the same time. Each request has a goroutine of its own that performs
// its operations in order; the scheduler decides when each operation starts and, in the lock-yield build of the
// test binary (tools/lockyield: a scheduling point before every lock acquisition of the tracker's files), where
// inside the tracker it is overtaken. Without that build the operations are atomic and the family repeats the
// sequential one with a different oracle.
//
// Oracle (no model of the order in which overlapping operations take effect is needed): two traversals of the same
// block in the same scope that were BOTH told "send" are a violation if neither request had begun to finish before
// both traversals had returned - whichever of the two took effect second saw a request in progress that had
// traversed the block.
type c19conc struct {
	ra    *responseassembler.ResponseAssembler
	nreq  int
	ncid  int
	plan  [][]ltOp // per request, in order (start ... links ... finish)
	scope []string
	descr string
	clock int
	trav  []c19trav
	// finishStart[r] = clock at which request r's finish operation began (0: not yet)
	finishStart []int
	doneReqs    int
	viol        *Violation
	links       []ipld.Link
}

type c19trav struct {
	req, cid   int
	start, end int
	sent       bool
}

func newC19Conc() Scenario { return &c19conc{} }

func (s *c19conc) Name() string     { return "linktracker-concurrent-callers" }
func (s *c19conc) Property() string { return "C19" }

func (s *c19conc) Build(w *World) {
	t := w.Tape
	w.Prof.Weights = map[string]int{"advance": 0}
	ctx, cancel := context.WithCancel(context.Background())
	w.cleanup = append(w.cleanup, cancel)
	s.ra = responseassembler.New(ctx, &capHandler{})
	d := GenDAG(t, GenCfg{MaxBlocks: 6, MaxDepth: 2})
	s.ncid = 1 + t.Draw(3)
	if s.ncid > len(d.Order) {
		s.ncid = len(d.Order)
	}
	for i := 0; i < s.ncid; i++ {
		s.links = append(s.links, cidlink.Link{Cid: d.Order[i]})
	}
	s.nreq = 2 + t.Draw(3)
	s.finishStart = make([]int, s.nreq)
	for r := 0; r < s.nreq; r++ {
		key := ""
		if t.Chance(250) {
			key = "k1"
		}
		s.scope = append(s.scope, key)
		ops := []ltOp{{kind: "start", req: r, key: key}}
		for k := 0; k < 1+t.Draw(4); k++ {
			ops = append(ops, ltOp{kind: "link", req: r, cid: t.Draw(s.ncid), present: !t.Chance(100)})
		}
		ops = append(ops, ltOp{kind: "finish", req: r})
		s.plan = append(s.plan, ops)
	}
	s.descr = fmt.Sprintf("requests=%d blocks=%d scopes=%v lock-yields=%v", s.nreq, s.ncid, s.scope, verifhook.Enabled)
	// scheduling points inside the tracker (present only in the lock-yield build)
	w.EnableLockYields("responsemanager/responseassembler/peerlinktracker.go", "responsemanager/responseassembler/responseassembler.go", "linktracker/linktracker.go")
	p := peer.ID("lt-peer")
	for r := 0; r < s.nreq; r++ {
		r := r
		go func() {
			var st responseassembler.ResponseStream
			for i, op := range s.plan[r] {
				if w.Park("api", fmt.Sprintf("op|r%d|%02d", r, i)) == "abort" {
					return
				}
				switch op.kind {
				case "start":
					st = s.ra.NewStream(context.Background(), p, ReqID(fmt.Sprintf("ltc-%d", r)), nopSub{})
					if op.key != "" {
						st.DedupKey(op.key)
					}
					w.Effect("r%d start key=%q", r, op.key)
				case "link":
					var data []byte
					if op.present {
						data = []byte(fmt.Sprintf("block-%d", op.cid))
					}
					s.clock++
					tr := c19trav{req: r, cid: op.cid, start: s.clock}
					var bd graphsync.BlockData
					_ = st.Transaction(func(rb responseassembler.ResponseBuilder) error {
						bd = rb.SendResponse(s.links[op.cid], data)
						return nil
					})
					s.clock++
					tr.end = s.clock
					tr.sent = bd.BlockSizeOnWire() > 0
					s.trav = append(s.trav, tr)
					w.Effect("r%d link c%d present=%v -> sent=%v [%d,%d]", r, op.cid, op.present, tr.sent, tr.start, tr.end)
				case "finish":
					s.clock++
					s.finishStart[r] = s.clock
					_ = st.Transaction(func(rb responseassembler.ResponseBuilder) error {
						rb.FinishRequest()
						return nil
					})
					w.Effect("r%d finish", r)
					s.doneReqs++
				}
			}
		}()
	}
}

func (s *c19conc) Describe(w *World) string      { return s.descr }
func (s *c19conc) Done(w *World) bool            { return s.doneReqs == s.nreq }
func (s *c19conc) Heal(w *World)                 {}
func (s *c19conc) Invariant(w *World) *Violation { return nil }

func (s *c19conc) Final(w *World) *Violation {
	if s.doneReqs != s.nreq {
		return &Violation{Property: "C19", Rule: "R0", Signature: "not-terminated", Detail: "an operation on the response assembler never returned; " + s.descr}
	}
	overlapped := false
	for i, a := range s.trav {
		for j, b := range s.trav {
			if j <= i || a.cid != b.cid || s.scope[a.req] != s.scope[b.req] {
				continue
			}
			if a.start < b.end && b.start < a.end {
				overlapped = true
			}
			if !a.sent || !b.sent {
				continue
			}
			last := a.end
			if b.end > last {
				last = b.end
			}
			fa, fb := s.finishStart[a.req], s.finishStart[b.req]
			if (fa == 0 || fa > last) && (fb == 0 || fb > last) {
				sig := "block-sent-twice-while-in-use"
				if a.start < b.end && b.start < a.end {
					sig += ":overlapping-traversals"
				}
				return &Violation{Property: "C19", Rule: "R1", Signature: sig, Detail: fmt.Sprintf("block c%d was sent for r%d (traversal [%d,%d]) and for r%d (traversal [%d,%d]) in scope %q, and neither request had begun to finish before both had returned (finish began at %d and %d); %s", a.cid, a.req, a.start, a.end, b.req, b.start, b.end, s.scope[a.req], fa, fb, s.descr)}
			}
		}
	}
	if overlapped {
		w.Probe("c19-traversals-overlapped-inside-the-tracker")
	}
	// whichever traversal of a block took effect first in its scope found nobody who had traversed it: somebody
	// must have been told to send it (this family uses neither skip counts nor ignore lists)
	type ck struct {
		cid   int
		scope string
	}
	present, sent := map[ck]bool{}, map[ck]bool{}
	for r, plan := range s.plan {
		for _, op := range plan {
			if op.kind == "link" && op.present {
				present[ck{op.cid, s.scope[r]}] = true
			}
		}
	}
	for _, t := range s.trav {
		if t.sent {
			sent[ck{t.cid, s.scope[t.req]}] = true
		}
	}
	for k := range present {
		allPresent := true
		for r, plan := range s.plan {
			for _, op := range plan {
				if op.kind == "link" && op.cid == k.cid && s.scope[r] == k.scope && !op.present {
					allPresent = false // (a traversal that found the block missing may have come first)
				}
			}
		}
		if allPresent && !sent[k] {
			return &Violation{Property: "C19", Rule: "R1", Signature: "block-sent-to-nobody:concurrent-callers", Detail: fmt.Sprintf("block c%d was traversed (present) in scope %q but no traversal was told to send it; %s", k.cid, k.scope, s.descr)}
		}
	}
	return nil
}
