package sim

import (
	"fmt"

	"github.com/ipfs/go-cid"
	"github.com/ipld/go-ipld-prime"

	"github.com/libp2p/go-libp2p/core/peer"

	"github.com/ipfs/go-graphsync"
	"github.com/ipfs/go-graphsync/cidset"
	"github.com/ipfs/go-graphsync/dedupkey"
	"github.com/ipfs/go-graphsync/donotsendfirstblocks"
)

// RespEntry is one metadata entry of a response as reassembled from the wire.
type RespEntry struct {
	Index    int // 1-based position in the concatenated metadata of the request
	Cid      cid.Cid
	Action   graphsync.LinkAction
	Msg      int  // ordinal of the wire message that carried it
	HasBlock bool // a block with this CID travelled in the same message
}

// RespOutput is everything a responder sent for one request.
type RespOutput struct {
	Entries  []RespEntry
	Statuses []graphsync.ResponseStatusCode
	// Blocks[msg] = CIDs of blocks in that message
	Blocks map[int][]cid.Cid
	Exts   [][]string
}

// ResponderOutput reassembles, per request, what was put on the wire.
func ResponderOutput(wire []*WireMsg, id graphsync.RequestID) RespOutput {
	out := RespOutput{Blocks: map[int][]cid.Cid{}}
	for mi, wm := range wire {
		if wm.Err != nil {
			continue
		}
		inMsg := map[cid.Cid]bool{}
		for _, b := range wm.Msg.Blocks() {
			inMsg[b.Cid()] = true
			out.Blocks[mi] = append(out.Blocks[mi], b.Cid())
		}
		for _, r := range wm.Msg.Responses() {
			if r.RequestID() != id {
				continue
			}
			out.Statuses = append(out.Statuses, r.Status())
			out.Exts = append(out.Exts, extNames(r.ExtensionNames()))
			for _, e := range ResponseMetadata(r) {
				out.Entries = append(out.Entries, RespEntry{Index: len(out.Entries) + 1, Cid: e.Cid, Action: e.Action, Msg: mi, HasBlock: inMsg[e.Cid]})
			}
		}
	}
	return out
}

// c24 observes the wire of a single cooperative exchange.
type c24 struct {
	c02
	userSkip int64
	ignore   *cid.Set
	// the request may live in a named deduplication scope that a second, unrelated request joins while it runs
	alt    *SimStore // the store selected for the request, when it is not the default one
	sib    *Req
	sibDag *DAG
	sibAt  int
}

func newC24() Scenario { return &c24{c02: c02{prop: "C24"}} }

func (s *c24) Name() string { return "traffic/single-request" }

func (s *c24) Build(w *World) {
	t := w.Tape
	drawProfile(w)
	s.dag = GenDAG(t, GenCfg{MaxBlocks: 3 + t.Draw(18), MaxDepth: 2 + t.Draw(4), BlockPad: []int{0, 0, 40}[t.Draw(3)], Share: []int{0, 100, 300}[t.Draw(3)], Empty: []int{0, 0, 80}[t.Draw(3)], Alias: []int{0, 0, 100}[t.Draw(3)]})
	s.sel, s.selDesc = GenSelector(t, 8)
	// requestor-heavy splits so that "already holds everything" and long local prefixes occur
	s.split = Split{Rq: map[cid.Cid]bool{}, Rs: map[cid.Cid]bool{}}
	mode := t.Draw(4)
	for i, c := range s.dag.Order {
		s.split.Rs[c] = true
		switch mode {
		case 0:
			s.split.Rq[c] = true
		case 1:
			s.split.Rq[c] = t.Chance(850)
		case 2:
			s.split.Rq[c] = t.Chance(400)
		case 3:
			// parents (late in generation order) present, leaves missing
			s.split.Rq[c] = i > len(s.dag.Order)/2
		}
	}
	cfg := NodeCfg{GateReads: true, GateCommits: true}
	s.a = NewNode(w, "A", cfg)
	s.b = NewNode(w, "B", cfg)
	// the requestor's blocks may live in a store selected for the request (a persistence option), not in its default store
	altStore := t.Chance(250)
	if altStore {
		s.alt = NewSimStore(w, "A2")
		for _, c := range s.dag.Order {
			if s.split.Rq[c] {
				s.alt.Put(c, s.dag.Blocks[c])
			}
		}
		if err := s.a.GS.RegisterPersistenceOption("alt", s.alt.LinkSystem()); err != nil {
			panic(err)
		}
		s.a.OnOutgoingRequest = func(p peer.ID, r graphsync.RequestData, a graphsync.OutgoingRequestHookActions) {
			if r.ID() == s.req.ID {
				a.UsePersistenceOption("alt")
			}
		}
	} else {
		populate(s.a, s.dag, s.split.Rq)
	}
	populate(s.b, s.dag, s.split.Rs)
	var exts []graphsync.ExtensionData
	if t.Chance(300) {
		s.userSkip = int64(1 + t.Draw(6))
		exts = append(exts, graphsync.ExtensionData{Name: graphsync.ExtensionsDoNotSendFirstBlocks, Data: donotsendfirstblocks.EncodeDoNotSendFirstBlocks(s.userSkip)})
	} else if t.Chance(300) {
		s.ignore = cid.NewSet()
		for _, c := range s.dag.Order {
			if t.Chance(300) {
				s.ignore.Add(c)
			}
		}
		exts = append(exts, graphsync.ExtensionData{Name: graphsync.ExtensionDoNotSendCIDs, Data: cidset.EncodeCidSet(s.ignore)})
	}
	if !altStore && t.Chance(250) {
		k, _ := dedupkey.EncodeDedupKey("scope")
		kx := graphsync.ExtensionData{Name: graphsync.ExtensionDeDupByKey, Data: k}
		exts = append(exts, kx)
		s.sibDag = GenDAG(t, GenCfg{MaxBlocks: 1 + t.Draw(3), MaxDepth: 1, BlockPad: 19})
		for _, c := range s.sibDag.Order {
			s.b.Store.Put(c, s.sibDag.Blocks[c])
		}
		s.sib = s.a.NewReq("r2", s.b, s.sibDag.Root, AllSelector(4), kx)
		s.sibAt = t.Draw(50)
	}
	s.req = s.a.NewReq("r1", s.b, s.dag.Root, s.sel, exts...)
	w.AddProvider(func() []*Event {
		if !s.req.Issued {
			return []*Event{s.req.IssueEvent()}
		}
		if s.sib != nil && !s.sib.Issued && w.Step >= s.sibAt {
			return []*Event{s.sib.IssueEvent()}
		}
		return nil
	})
}

func (s *c24) Done(w *World) bool {
	return s.req.Done() && (s.sib == nil || !s.sib.Issued || s.sib.Done())
}

func (s *c24) Describe(w *World) string {
	ign := 0
	if s.ignore != nil {
		ign = s.ignore.Len()
	}
	return fmt.Sprintf("%s userSkip=%d ignore=%d altStore=%v", s.c02.Describe(w), s.userSkip, ign, s.alt != nil)
}

// localPrefix counts the blocks a traversal loads from the requestor store
// before the first miss, and whether there is a miss at all.
func localPrefix(d *DAG, sel ipld.Node, rq map[cid.Cid]bool) (n int, miss bool) {
	Ref(d.Root, sel, func(path string, c cid.Cid) ([]byte, bool) {
		if miss {
			return nil, false
		}
		if !rq[c] {
			miss = true
			return nil, false
		}
		n++
		return d.Blocks[c], true
	}, 0)
	return
}

func (s *c24) Final(w *World) *Violation {
	if !s.req.Done() {
		return &Violation{Property: "C24", Rule: "R0", Signature: "not-terminated", Detail: "request did not finish in a fault-free run"}
	}
	csel, _ := CanonicalSelector(s.sel)
	n, miss := localPrefix(s.dag, csel, s.split.Rq)
	fromA := w.Net.WireFor("A", "B")
	if !miss && s.sib != nil {
		return nil // (the second request's traffic is its own)
	}
	if !miss {
		if len(fromA) > 0 {
			return &Violation{Property: "C24", Rule: "R1", Signature: "needless-traffic", Detail: fmt.Sprintf("requestor holds every block the traversal needs (%d) but sent %d message(s): %s", n, len(fromA), SummarizeMsg(w.Net, fromA[0].Msg))}
		}
		if w.Net.connected[pairKey("A", "B")] {
			return &Violation{Property: "C24", Rule: "R1", Signature: "needless-connect", Detail: "requestor holds every block but dialled the responder"}
		}
		return nil
	}
	// R2: first new request carries the right skip count
	var first *graphsync.RequestData
	for _, wm := range fromA {
		for _, r := range wm.Msg.Requests() {
			if r.Type() == graphsync.RequestTypeNew && r.ID() == s.req.ID && first == nil {
				rr := graphsync.RequestData(r)
				first = &rr
			}
		}
	}
	if first == nil {
		return &Violation{Property: "C24", Rule: "R2", Signature: "no-request-sent", Detail: "the traversal misses a block locally but no new request reached the wire"}
	}
	want := int64(n)
	if s.userSkip > want {
		want = s.userSkip
	}
	got := int64(0)
	if data, ok := (*first).Extension(graphsync.ExtensionsDoNotSendFirstBlocks); ok {
		v, err := donotsendfirstblocks.DecodeDoNotSendFirstBlocks(data)
		if err != nil {
			return &Violation{Property: "C24", Rule: "R2", Signature: "bad-skip-extension", Detail: err.Error()}
		}
		got = v
		if v == 0 {
			return &Violation{Property: "C24", Rule: "R2", Signature: "zero-skip-extension", Detail: "do-not-send-first-blocks present with value 0"}
		}
	}
	if got != want {
		return &Violation{Property: "C24", Rule: "R2", Signature: "skip-count", Detail: fmt.Sprintf("do-not-send-first-blocks=%d, want max(user %d, loaded locally %d)=%d", got, s.userSkip, n, want)}
	}
	// R3: nothing skipped or ignored is transmitted, nothing twice
	out := ResponderOutput(w.Net.WireFor("B", "A"), s.req.ID)
	sent := map[cid.Cid]int{}
	for mi, cs := range out.Blocks {
		for _, c := range cs {
			if _, mine := s.dag.Blocks[c]; !mine {
				continue // a block of the second request
			}
			if prev, ok := sent[c]; ok && prev != mi {
				return &Violation{Property: "C24", Rule: "R3", Signature: "block-sent-twice", Detail: fmt.Sprintf("block %s in messages %d and %d", shortCid(c), prev, mi)}
			}
			sent[c] = mi
			justified := false
			for _, e := range out.Entries {
				if e.Msg == mi && e.Cid.Equals(c) && e.Action == graphsync.LinkActionPresent && int64(e.Index) > want && (s.ignore == nil || !s.ignore.Has(c)) {
					justified = true
				}
			}
			if !justified {
				return &Violation{Property: "C24", Rule: "R3", Signature: "skipped-block-sent", Detail: fmt.Sprintf("block %s in message %d has no present metadata entry beyond the skip count %d / outside the ignore set", shortCid(c), mi, want)}
			}
		}
	}
	return nil
}
