package sim

import (
	"context"
	"fmt"
	"io"
	"sort"
	"strings"
	"sync"
	"time"

	blocks "github.com/ipfs/go-block-format"
	"github.com/ipfs/go-cid"
	"github.com/ipld/go-ipld-prime"
	cidlink "github.com/ipld/go-ipld-prime/linking/cid"
	"github.com/ipld/go-ipld-prime/node/basicnode"
	"github.com/libp2p/go-libp2p/core/peer"

	"github.com/ipfs/go-graphsync"
	"github.com/ipfs/go-graphsync/allocator"
	"github.com/ipfs/go-graphsync/messagequeue"
	gsnet "github.com/ipfs/go-graphsync/network"
	"github.com/ipfs/go-graphsync/notifications"
	"github.com/ipfs/go-graphsync/peermanager"
)

// marker is the BlockData attached to every queued operation: its link is
// unique per operation, so a report can be attributed to the operation.
type marker struct {
	link ipld.Link
	size uint64
	idx  int64
}

func (m marker) Link() ipld.Link         { return m.link }
func (m marker) BlockSize() uint64       { return m.size }
func (m marker) BlockSizeOnWire() uint64 { return m.size }
func (m marker) Index() int64            { return m.idx }

// mqSub records what one party attached to messages is told.
type mqSub struct {
	w      *World
	req    graphsync.RequestID
	mu     sync.Mutex
	events map[string][]string // topic -> ["queued","sent","error","close"]
	// reported[link] = terminal reports that listed the operation
	reported map[string][]string
	errorAt  []int // steps at which an Error report arrived
}

func (s *mqSub) OnNext(t notifications.Topic, e notifications.Event) {
	ev, ok := e.(messagequeue.Event)
	if !ok {
		return
	}
	name := map[messagequeue.EventName]string{messagequeue.Queued: "queued", messagequeue.Sent: "sent", messagequeue.Error: "error"}[ev.Name]
	tk := fmt.Sprint(t)
	s.mu.Lock()
	s.events[tk] = append(s.events[tk], name)
	if name == "error" {
		s.errorAt = append(s.errorAt, s.w.Step)
	}
	if name != "queued" {
		for _, bd := range ev.Metadata.BlockData[s.req] {
			k := bd.Link().String()
			s.reported[k] = append(s.reported[k], name)
		}
	}
	s.mu.Unlock()
	s.w.Effect("report %s topic %s %s", shortReq(s.req), tk, name)
}

func (s *mqSub) OnClose(t notifications.Topic) {
	tk := fmt.Sprint(t)
	s.mu.Lock()
	s.events[tk] = append(s.events[tk], "close")
	s.mu.Unlock()
}

type closer struct{ closed *bool }

func (c closer) Close() error { *c.closed = true; return nil }

var _ io.Closer = closer{}

type mqCall struct {
	idx     int
	peer    string
	req     int
	kind    string // block | ext | status
	size    uint64
	link    cidlink.Link
	wireCid cid.Cid // the CID the receiver computes for the operation's block (prefix + data)
	fired   bool
	fireAt  int
	builtAt int
	retAt   int
	built   bool // the build function ran and put something into a message
	ran     bool // the build function ran
	buildNo int  // order in which build functions ran (per peer)
	ret     bool // AllocateAndBuildMessage returned
}

// mq is the component world of C15, C16 and C17: the real message queue,
// peer manager, allocator and publisher over the simulated network.
type mq struct {
	connReturned, discFired map[string]int // per peer: Connected calls returned, Disconnected notifications issued
	prop                    string
	host                    *SimHost
	net                     gsnet.GraphSyncNetwork
	alloc                   *allocator.Allocator
	ledger                  *ledgerAlloc
	pm                      *peermanager.PeerMessageManager
	peers                   []*Scripted
	subs                    map[string]*mqSub // peer/req
	calls                   []*mqCall
	nBuilt                  map[string]int
	live                    map[string]int   // peer -> queues started and not exited
	active                  map[string]int   // peer -> queues started and not yet told to shut down
	shutAt                  map[string][]int // peer -> steps at which a queue of the peer was told to shut down
	exitAt                  map[string][]int // peer -> steps at which a queue of the peer exited
	maxLive                 map[string]int
	conn                    map[string]int // connected notifications outstanding per peer
	script                  []string       // connect/disconnect events: "conn:P", "disc:P"
	sNext                   int
	scriptAt                []int // step at which each connection event was fired
	descr                   string
	viol                    *Violation
	unreserved              *mqCall // first operation built although its reservation had not been granted
	ctx                     context.Context
}

func newC15() Scenario { return &mq{prop: "C15"} }
func newC16() Scenario { return &mq{prop: "C16"} }
func newC17() Scenario { return &mq{prop: "C17"} }

func (s *mq) Name() string     { return "message-queue-component" }
func (s *mq) Property() string { return s.prop }

func (s *mq) Build(w *World) {
	t := w.Tape
	drawProfile(w)
	NewFabric(w)
	backlog := t.Chance(200)
	if backlog {
		// swarm: callers outrun the sender, so that several messages are pending per peer
		w.Prof.Weights["send"], w.Prof.Weights["yield"], w.Prof.Weights["connect"], w.Prof.Weights["api"] = 1, 1, 1, 40
		w.Prof.RunToBlock = 0
	}
	w.MaxIdle = 30 * time.Second
	s.subs, s.nBuilt, s.live, s.maxLive, s.conn = map[string]*mqSub{}, map[string]int{}, map[string]int{}, map[string]int{}, map[string]int{}
	s.active, s.shutAt, s.exitAt = map[string]int{}, map[string][]int{}, map[string][]int{}
	s.connReturned, s.discFired = map[string]int{}, map[string]int{}
	var cancel context.CancelFunc
	s.ctx, cancel = context.WithCancel(context.Background())
	w.cleanup = append(w.cleanup, cancel)
	s.host = w.Net.NewHost("N")
	s.net = gsnet.NewFromLibp2pHost(s.host)
	w.NameObject(s.net, "N")
	// faults
	w.Net.SendFaults = []string{"fail", "acklost", "stall"}
	w.Net.ConnectFaults = []string{"fail"}
	// the underlying connection may drop too (so that re-opening a sender has to dial again)
	w.Net.DisconnectFaults = t.Chance(300)
	w.Prof.Weights["disconnect"] = 1
	w.Prof.FaultPm = map[string]int{"send": []int{0, 50, 150, 400}[t.Draw(4)], "connect": []int{0, 0, 150, 400}[t.Draw(4)]}
	w.Prof.FaultBudget = t.Draw(7)
	// buggify: a random subset of the internal yield sites is active
	for _, site := range []string{"messagequeue.afterReserve", "messagequeue.afterRelease", "messagequeue.afterBuild", "messagequeue.doneArm", "messagequeue.beforeExit", "peermanager.beforeShutdown", "peermanager.getProcessMiss", "peermanager.gotProcess"} {
		if t.Chance(350) {
			w.Yields[site] = true
		}
	}
	// lock-yield build: in a third of the runs a subset of the component's files also yields before every lock
	// acquisition made with no instrumented lock held (chosen from the tape's digest: no draw)
	if d := t.Digest(); d%3 == 0 {
		var on []string
		for i, f := range mqLockYieldFiles {
			if (d>>(8+uint(i)))&1 == 1 {
				on = append(on, f)
			}
		}
		w.EnableLockYields(on...)
	}
	unit := uint64(100)
	perPeer := unit * uint64(2+t.Draw(8))
	total := unit * uint64(4+t.Draw(20))
	bigBlocks := t.Chance(150)
	if bigBlocks {
		perPeer, total = 1<<20, 4<<20
	}
	s.alloc = allocator.NewAllocator(total, perPeer)
	s.ledger = newLedgerAlloc(w, s.alloc, func(p peer.ID) string { return w.Net.Name(p) })
	retries := 1 + t.Draw(3)
	timeout := time.Duration(1+t.Draw(20)) * time.Second
	s.pm = peermanager.NewMessageManager(s.ctx, func(ctx context.Context, p peer.ID, onShutdown func(peer.ID)) peermanager.PeerQueue {
		return messagequeue.New(ctx, p, s.net, s.ledger, retries, timeout, onShutdown)
	})
	w.NameObject(s.pm.PeerManager, "N")
	w.OnObserve = func(site, detail string, obj any) {
		name := w.Net.Name(peer.ID(detail))
		w.Effect("observe %s %s", site, name)
		w.mu.Lock()
		switch site {
		case "messagequeue.shutdown":
			s.active[name]--
			s.shutAt[name] = append(s.shutAt[name], w.Step)
		case "messagequeue.started":
			s.active[name]++
			s.live[name]++
			if s.live[name] > s.maxLive[name] {
				s.maxLive[name] = s.live[name]
			}
		case "messagequeue.exited":
			s.live[name]--
			s.exitAt[name] = append(s.exitAt[name], w.Step)
		}
		w.mu.Unlock()
	}
	npeers := 1 + t.Draw(2)
	for i := 0; i < npeers; i++ {
		s.peers = append(s.peers, NewScripted(w, string(rune('P'+i))))
	}
	ncalls := 2 + t.Draw(10)
	for i := 0; i < ncalls; i++ {
		c := &mqCall{idx: i, peer: s.peers[t.Draw(npeers)].Name, req: t.Draw(3)}
		c.kind = []string{"block", "block", "ext", "status", "block", "nothing"}[t.Draw(6)]
		if bigBlocks && t.Chance(600) {
			c.kind = "block" // messages fill up: what matters is which message a block lands in
		}
		switch c.kind {
		case "block":
			c.size = unit * uint64([]int{1, 1, 2, 3}[t.Draw(4)])
			if bigBlocks && t.Chance(500) {
				c.size = 300*1024 + uint64(i) // two of these do not fit one message
			}
			if !bigBlocks {
				c.size += uint64(i) // sizes are unique per call, so a reservation can be attributed
			}
			if c.size > perPeer {
				c.size = perPeer - uint64(i) // (sizes stay unique per call: a reservation is attributed by its size)
			}
		case "ext":
			c.size = 0
		case "nothing":
			// memory is reserved but the callback finds nothing to build (e.g. its response stream was closed meanwhile)
			c.size = unit + uint64(i)
		}
		c.link = cidlink.Link{Cid: mustCid(fmt.Sprintf("mq-op-%d", i))}
		s.calls = append(s.calls, c)
	}
	// connection events: a well-formed notification history per peer (libp2p
	// reports one Connected and later one Disconnected per connection; several
	// connections to one peer may overlap), interleaved across peers by the tape
	type pending struct {
		peer string
		seq  []string
	}
	var per []*pending
	for _, p := range s.peers {
		pp := &pending{peer: p.Name}
		open := 0
		n := t.Draw(5)
		for k := 0; k < n; k++ {
			if open > 0 && t.Chance(500) {
				pp.seq = append(pp.seq, "disc:"+p.Name)
				open--
			} else {
				pp.seq = append(pp.seq, "conn:"+p.Name)
				open++
			}
		}
		// most histories end with the peer fully disconnected
		if t.Chance(700) {
			for ; open > 0; open-- {
				pp.seq = append(pp.seq, "disc:"+p.Name)
			}
		}
		per = append(per, pp)
	}
	for {
		var avail []*pending
		for _, pp := range per {
			if len(pp.seq) > 0 {
				avail = append(avail, pp)
			}
		}
		if len(avail) == 0 {
			break
		}
		pp := avail[t.Draw(len(avail))]
		s.script = append(s.script, pp.seq[0])
		pp.seq = pp.seq[1:]
	}
	s.descr = fmt.Sprintf("peers=%d calls=%d retries=%d perPeer=%d backlog=%v conn-script=%v yields=%v", npeers, ncalls, retries, perPeer, backlog, s.script, yieldList(w))
	w.AddProvider(s.events(w))
}

func yieldList(w *World) []string {
	var out []string
	for k, v := range w.Yields {
		if v && k != "messagequeue.beforeSendMessage" {
			out = append(out, strings.TrimPrefix(strings.TrimPrefix(k, "messagequeue."), "peermanager."))
		}
	}
	sort.Strings(out)
	return out
}

func mustCid(seed string) cid.Cid {
	c, err := cid.Prefix{Version: 1, Codec: 0x55, MhType: 0x12, MhLength: 32}.Sum([]byte(seed))
	if err != nil {
		panic(err)
	}
	return c
}

func (s *mq) peerID(name string) peer.ID {
	for _, p := range s.peers {
		if p.Name == name {
			return p.ID
		}
	}
	return ""
}

func (s *mq) sub(w *World, peerName string, req int) *mqSub {
	k := fmt.Sprintf("%s/%d", peerName, req)
	if s.subs[k] == nil {
		s.subs[k] = &mqSub{w: w, req: ReqID(fmt.Sprintf("mq-%s-%d", peerName, req)), events: map[string][]string{}, reported: map[string][]string{}}
	}
	return s.subs[k]
}

func (s *mq) events(w *World) func() []*Event {
	return func() []*Event {
		var evs []*Event
		for _, c := range s.calls {
			c := c
			if c.fired {
				continue
			}
			evs = append(evs, Inject("api", fmt.Sprintf("call|%03d|%s", c.idx, c.peer), func(string) { s.fire(w, c) }))
			break // calls are issued in order (one caller thread per call, started in order)
		}
		// (a connection's Disconnected follows its Connected: a disconnect is notified only once a Connected call
		// that it can belong to has returned - with lock-yield points a call may be held at its very first lock)
		if s.sNext < len(s.script) && (!strings.HasPrefix(s.script[s.sNext], "disc:") || s.connReturned[s.script[s.sNext][5:]] > s.discFired[s.script[s.sNext][5:]]) {
			i := s.sNext
			ev := s.script[i]
			evs = append(evs, Inject("notify", fmt.Sprintf("conn|%03d|%s", i, ev), func(string) {
				if s.sNext != i {
					return
				}
				s.sNext++
				s.scriptAt = append(s.scriptAt, w.Step)
				parts := strings.SplitN(ev, ":", 2)
				p := s.peerID(parts[1])
				w.Effect("peermanager %s", ev)
				w.Probe("mq-" + parts[0])
				if parts[0] == "disc" {
					s.discFired[parts[1]]++
				}
				go func() {
					if parts[0] == "conn" {
						s.pm.Connected(p)
						s.connReturned[parts[1]]++
					} else {
						s.pm.Disconnected(p)
					}
				}()
			}))
		}
		return evs
	}
}

func (s *mq) fire(w *World, c *mqCall) {
	c.fired = true
	c.fireAt = w.Step
	sub := s.sub(w, c.peer, c.req)
	p := s.peerID(c.peer)
	w.Effect("call %d %s req %d %s size=%d", c.idx, c.peer, c.req, c.kind, c.size)
	size := c.size
	ext := graphsync.ExtensionData{Name: "sim/x", Data: basicnode.NewString(strings.Repeat("e", 20+c.idx))}
	if c.kind == "ext" {
		size = 24 + uint64(c.idx) // roughly the encoded length; what matters is that it is > 0 and returned
	}
	c.size = size
	go func() {
		s.pm.AllocateAndBuildMessage(p, size, func(b *messagequeue.Builder) {
			c.ran = true
			c.built = c.kind != "nothing"
			c.builtAt = w.Step
			if size > 0 {
				// C15 R3: data is never queued without a successful reservation
				n := 0
				for _, o := range s.calls {
					if o.ran && o.peer == c.peer && o.size == size {
						n++
					}
				}
				if g := s.ledger.Grants(c.peer, size); g < n && s.unreserved == nil {
					s.unreserved = c
				}
			}
			w.mu.Lock()
			s.nBuilt[c.peer]++
			c.buildNo = s.nBuilt[c.peer]
			w.mu.Unlock()
			switch c.kind {
			case "block":
				data := make([]byte, c.size)
				copy(data, []byte(fmt.Sprintf("mq-op-%d", c.idx)))
				blk, _ := blocks.NewBlockWithCid(data, mustCid(fmt.Sprintf("mq-blk-%d", c.idx)))
				c.wireCid, _ = blk.Cid().Prefix().Sum(data)
				b.AddBlock(blk)
				b.AddLink(sub.req, cidlink.Link{Cid: blk.Cid()}, graphsync.LinkActionPresent)
			case "ext":
				b.AddExtensionData(sub.req, ext)
			case "status":
				b.AddResponseCode(sub.req, graphsync.PartialResponse)
			case "nothing":
				w.Effect("built %d (nothing)", c.idx)
				return
			}
			b.AddBlockData(sub.req, marker{link: c.link, size: c.size, idx: int64(c.idx)})
			closed := false
			b.SetResponseStream(sub.req, closer{&closed})
			b.SetSubscriber(sub.req, sub)
			w.Effect("built %d", c.idx)
		})
		c.retAt = w.Step
		c.ret = true
	}()
}

func (s *mq) Describe(w *World) string { return s.descr }

func (s *mq) Done(w *World) bool {
	for _, c := range s.calls {
		if !c.fired {
			return false
		}
	}
	return s.sNext >= len(s.script) && w.Quiet()
}

func (s *mq) Heal(w *World) { w.Net.Heal() }

func (s *mq) Invariant(w *World) *Violation {
	if s.prop == "C17" {
		w.mu.Lock()
		defer w.mu.Unlock()
		// live = started and not yet told to shut down (a queue that was told to
		// shut down may still be flushing while its successor starts)
		for p, n := range s.active {
			if n > 1 {
				return &Violation{Property: "C17", Rule: "R1", Signature: "two-live-queues", Detail: fmt.Sprintf("%d message queues for peer %s that have not been shut down; %s", n, p, s.descr)}
			}
		}
	}
	return nil
}

func (s *mq) Final(w *World) *Violation {
	switch s.prop {
	case "C15":
		return s.finalC15(w)
	case "C16":
		return s.finalC16(w)
	}
	return s.finalC17(w)
}

// builtAcrossShutdown: the caller was already under way (holding the peer's
// queue or waiting for its reservation) when that queue was told to shut
// down, and built its operation afterwards - the input class of a recorded finding.
func (s *mq) builtAcrossShutdown(w *World, c *mqCall) bool {
	w.mu.Lock()
	defer w.mu.Unlock()
	// queues of a peer shut down and exit in the order they were created (at most one runs at a time)
	for i, at := range s.shutAt[c.peer] {
		exit := 1 << 30
		if i < len(s.exitAt[c.peer]) {
			exit = s.exitAt[c.peer][i]
		}
		// the call was under way (holding the queue, waiting for the reservation,
		// between build and signal, or handed the dying queue by the peer manager)
		// at some point between the queue being told to stop and its exit
		if c.fireAt <= exit && (!c.ret || at <= c.retAt) {
			return true
		}
	}
	return false
}

// scrubbedByFailure: the party attached for the operation's request was told of
// a failed message at or after the time the operation was built.
func (s *mq) scrubbedByFailure(c *mqCall) bool {
	sub := s.subs[fmt.Sprintf("%s/%d", c.peer, c.req)]
	if sub == nil {
		return false
	}
	sub.mu.Lock()
	defer sub.mu.Unlock()
	for _, at := range sub.errorAt {
		if at >= c.builtAt {
			return true
		}
	}
	return false
}

// reportsOf gathers, per operation, the terminal reports that listed it.
func (s *mq) reportsOf(c *mqCall) []string {
	sub := s.subs[fmt.Sprintf("%s/%d", c.peer, c.req)]
	if sub == nil {
		return nil
	}
	sub.mu.Lock()
	defer sub.mu.Unlock()
	return sub.reported[c.link.String()]
}

func (s *mq) finalC15(w *World) *Violation {
	tag := func(c *mqCall) string {
		if c != nil && s.builtAcrossShutdown(w, c) {
			return ":built-into-queue-shutting-down"
		}
		return ""
	}
	if c := s.unreserved; c != nil {
		return &Violation{Property: "C15", Rule: "R3", Signature: "built-without-reservation" + tag(c), Detail: fmt.Sprintf("operation #%d (%s, %d bytes, peer %s) was built into a message although its reservation was not granted; %s", c.idx, c.kind, c.size, c.peer, s.descr)}
	}
	if v := s.ledger.Violation(); v != nil {
		v.Detail += "; " + s.descr
		w.mu.Lock()
		if s.maxLive[s.ledger.violPeer] > 1 {
			// two queue instances of the peer were alive at once (one flushing after its
			// shutdown, the other its successor): the input class of a recorded finding
			v.Signature += ":overlapping-queues"
		}
		w.mu.Unlock()
		return v
	}
	// R1: once every queue is idle nothing is accounted to any peer
	for _, p := range s.peers {
		if got := s.alloc.AllocatedForPeer(p.ID); got != 0 {
			// which operations are still unreported?
			var open []string
			for _, c := range s.calls {
				if c.peer == p.Name && c.built && len(s.reportsOf(c)) == 0 && !s.scrubbedByFailure(c) {
					open = append(open, fmt.Sprintf("#%d(%s,%d)", c.idx, c.kind, c.size))
				}
			}
			sig := "memory-left-after-idle"
			if len(open) > 0 {
				sig += ":unreported-operations"
			}
			for _, c := range s.calls {
				if c.peer == p.Name && c.ran && len(s.reportsOf(c)) == 0 && s.builtAcrossShutdown(w, c) {
					sig += ":built-into-queue-shutting-down"
					break
				}
			}
			return &Violation{Property: "C15", Rule: "R1", Signature: sig, Detail: fmt.Sprintf("peer %s still has %d bytes accounted with its queue idle; unreported operations %v; %s", p.Name, got, open, s.descr)}
		}
	}
	if st := s.alloc.Stats(); st.TotalAllocatedAllPeers != 0 || st.TotalPendingAllocations != 0 {
		return &Violation{Property: "C15", Rule: "R1", Signature: "total-left-after-idle", Detail: fmt.Sprintf("%+v; %s", st, s.descr)}
	}
	return nil
}

func (s *mq) finalC16(w *World) *Violation {
	// R1a: every operation that was built into a message is reported sent or failed exactly once
	for _, c := range s.calls {
		if !c.built {
			continue
		}
		reps := s.reportsOf(c)
		switch {
		case len(reps) == 0:
			// an operation discarded because another message of its request failed is
			// covered by that failure's report (the whole response stream is closed)
			if s.scrubbedByFailure(c) {
				w.Probe("mq-scrubbed-by-failure")
				continue
			}
			sig := "never-reported"
			if s.builtAcrossShutdown(w, c) {
				sig += ":built-into-queue-shutting-down"
			}
			return &Violation{Property: "C16", Rule: "R1", Signature: sig, Detail: fmt.Sprintf("operation #%d (%s for %s/req %d) was built into a message that was reported neither sent nor failed; %s", c.idx, c.kind, c.peer, c.req, s.descr)}
		case len(reps) > 1:
			return &Violation{Property: "C16", Rule: "R1", Signature: "reported-twice", Detail: fmt.Sprintf("operation #%d reported %v; %s", c.idx, reps, s.descr)}
		}
	}
	// R1b: per attached party and message: at most one queued, exactly one of sent/error, then exactly one close
	var keys []string
	for k := range s.subs {
		keys = append(keys, k)
	}
	sort.Strings(keys)
	for _, k := range keys {
		sub := s.subs[k]
		sub.mu.Lock()
		evs := sub.events
		sub.mu.Unlock()
		for topic, seq := range evs {
			// topic numbers restart with every new queue of the peer, and a queue that
			// is shutting down can overlap with its successor: count, do not sequence
			nq, nt, nc := 0, 0, 0
			for _, e := range seq {
				switch e {
				case "queued":
					nq++
				case "sent", "error":
					nt++
				case "close":
					nc++
				}
			}
			if nq > nt || nt != nc {
				return &Violation{Property: "C16", Rule: "R1", Signature: "per-message-sequence", Detail: fmt.Sprintf("%s topic %s saw %v (per message: at most one queued, exactly one sent/error, exactly one close); %s", k, topic, seq, s.descr)}
			}
		}
	}
	return nil
}

func (s *mq) finalC17(w *World) *Violation {
	// R2: no queue outlives the last disconnect of its peer
	w.mu.Lock()
	live := map[string]int{}
	for k, v := range s.live {
		live[k] = v
	}
	w.mu.Unlock()
	for _, p := range s.peers {
		nconn := 0
		lastIsDisc := false
		for _, e := range s.script {
			if e == "conn:"+p.Name {
				nconn++
				lastIsDisc = false
			}
			if e == "disc:"+p.Name {
				nconn--
				lastIsDisc = true
			}
		}
		_ = lastIsDisc
		// after the notifications balance out (or go negative) and nothing more is queued, the queue must be gone;
		// a queue created lazily by a send after the last disconnect legitimately lives on: a send counts as
		// late unless it had returned before the step at which the last disconnect was fired
		lastDisc := -1
		for i, e := range s.script {
			if e == "disc:"+p.Name && i < len(s.scriptAt) {
				lastDisc = s.scriptAt[i]
			}
		}
		lateSend := false
		for _, c := range s.calls {
			if c.peer == p.Name && c.fired && (!c.ret || c.retAt >= lastDisc) {
				lateSend = true
			}
		}
		if nconn <= 0 && s.hadConn(p.Name) && !lateSend && live[p.Name] > 0 {
			return &Violation{Property: "C17", Rule: "R2", Signature: "queue-outlives-disconnect", Detail: fmt.Sprintf("peer %s: %d live queue(s) after its last disconnect; %s", p.Name, live[p.Name], s.descr)}
		}
	}
	// R3: messages to a peer leave in the order they were queued
	for _, p := range s.peers {
		last := 0
		seen := map[string]bool{}
		for mi, wm := range w.Net.WireFor("N", p.Name) {
			if wm.Err != nil {
				continue
			}
			lo, hi := 1<<30, 0
			for _, c := range s.calls {
				if c.peer != p.Name || !c.built {
					continue
				}
				if s.inMessage(wm, c) {
					if c.buildNo < lo {
						lo = c.buildNo
					}
					if c.buildNo > hi {
						hi = c.buildNo
					}
				}
			}
			if hi == 0 {
				continue
			}
			if last > 0 {
				w.Probe("c17-message-order-compared")
			}
			key := fmt.Sprintf("%d-%d", lo, hi)
			if seen[key] {
				continue // a retry of the same message
			}
			seen[key] = true
			if lo < last {
				sig := "messages-out-of-order"
				w.mu.Lock()
				if s.maxLive[p.Name] > 1 {
					// two queue instances of the peer were alive at once (the old one still
					// flushing after its shutdown, and its successor): a recorded finding
					sig += ":overlapping-queues"
				}
				w.mu.Unlock()
				return &Violation{Property: "C17", Rule: "R3", Signature: sig, Detail: fmt.Sprintf("peer %s: message %d on the wire carries operation built %d-th after a message carrying the %d-th; %s", p.Name, mi, lo, last, s.descr)}
			}
			last = hi
		}
	}
	return nil
}

func (s *mq) hadConn(name string) bool {
	for _, e := range s.script {
		if e == "conn:"+name {
			return true
		}
	}
	return false
}

// inMessage: does the wire message carry the operation (its block, or its request's extension/status)?
func (s *mq) inMessage(wm *WireMsg, c *mqCall) bool {
	if c.kind == "block" {
		for _, b := range wm.Msg.Blocks() {
			if b.Cid().Equals(c.wireCid) {
				return true
			}
		}
	}
	return false
}

// mqLockYieldFiles: the files of the message-queue component world that the lock-yield build instruments.
var mqLockYieldFiles = []string{"peermanager/peermanager.go", "messagequeue/messagequeue.go", "allocator/allocator.go", "notifications/publisher.go"}
