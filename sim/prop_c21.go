package sim

import (
	"context"
	"fmt"
	"strings"

	"github.com/ipfs/go-cid"
	"github.com/libp2p/go-libp2p/core/peer"

	"github.com/ipfs/go-graphsync"

	gsimpl "github.com/ipfs/go-graphsync/impl"
)

// c21: work limits on the responder (incoming, per peer) and on the requestors (outgoing).
type c21 struct {
	b          *Node
	reqNodes   []*Node
	reqs       []*Req
	dags       []*DAG
	cancel     map[string]int // label -> step from which the caller may cancel
	cancelled  map[string]bool
	bcancel    map[string]int                // label -> step from which the responder's operator may cancel the response
	pauseAt    map[graphsync.RequestID]int64 // responder pauses the response at this block (once)
	pausedAt   map[graphsync.RequestID]int   // step at which it did
	resumed    map[graphsync.RequestID]bool
	maxIn      int
	maxPerPeer int
	maxOut     int
	descr      string
	peakIn     int
	peakOut    int
}

func newC21() Scenario {
	return &c21{cancel: map[string]int{}, bcancel: map[string]int{}, cancelled: map[string]bool{}, pauseAt: map[graphsync.RequestID]int64{}, pausedAt: map[graphsync.RequestID]int{}, resumed: map[graphsync.RequestID]bool{}}
}

func (s *c21) Name() string     { return "work-limits" }
func (s *c21) Property() string { return "C21" }

func (s *c21) Build(w *World) {
	t := w.Tape
	drawProfile(w)
	// loads are what a task's duration is made of: hold them long in some runs
	w.Prof.Weights["load"] = []int{1, 3, 10, 40}[t.Draw(4)]
	w.Prof.Weights["api"] = []int{3, 10, 40}[t.Draw(3)]
	// buggify: in some runs a worker that has taken a task may be held before it asks for the task data
	if t.Chance(400) {
		w.Yields["taskqueue.afterPop"] = true
	}
	s.maxIn = 1 + t.Draw(4)
	s.maxPerPeer = t.Draw(4)
	s.maxOut = 1 + t.Draw(3)
	bopts := []gsimpl.Option{gsimpl.MaxInProgressIncomingRequests(uint64(s.maxIn))}
	if s.maxPerPeer > 0 {
		bopts = append(bopts, gsimpl.MaxInProgressIncomingRequestsPerPeer(uint64(s.maxPerPeer)))
	}
	s.b = NewNode(w, "B", NodeCfg{GateReads: true, Opts: bopts})
	npeers := 2 + t.Draw(3)
	for i := 0; i < npeers; i++ {
		n := NewNode(w, string(rune('C'+i)), NodeCfg{GateReads: true, GateCommits: true, Opts: []gsimpl.Option{gsimpl.MaxInProgressOutgoingRequests(uint64(s.maxOut))}})
		s.reqNodes = append(s.reqNodes, n)
	}
	nreq := 3 + t.Draw(8)
	for i := 0; i < nreq; i++ {
		d := GenDAG(t, GenCfg{MaxBlocks: 2 + t.Draw(6), MaxDepth: 1 + t.Draw(3), BlockPad: 5 + i})
		s.dags = append(s.dags, d)
		for _, c := range d.Order {
			s.b.Store.Put(c, d.Blocks[c])
		}
		from := s.reqNodes[t.Draw(len(s.reqNodes))]
		r := from.NewReq(fmt.Sprintf("w%d", i), s.b, d.Root, AllSelector(8))
		s.reqs = append(s.reqs, r)
		if t.Chance(150) {
			s.cancel[r.Label] = t.Draw(60)
		} else if t.Chance(150) {
			// the responder's operator cancels this response while it runs
			s.bcancel[r.Label] = t.Draw(60)
		} else if t.Chance(200) {
			// the responder pauses this response at a block and its operator resumes it later
			s.pauseAt[r.ID] = int64(1 + t.Draw(3))
		}
	}
	s.b.OnOutgoingBlock = func(p peer.ID, r graphsync.RequestData, b graphsync.BlockData, a graphsync.OutgoingBlockHookActions) {
		if at, ok := s.pauseAt[r.ID()]; ok && b.Index() == at {
			if _, done := s.pausedAt[r.ID()]; !done {
				s.pausedAt[r.ID()] = w.Step
				w.Probe("c21-pause")
				a.PauseResponse()
			}
		}
	}
	s.descr = fmt.Sprintf("maxIn=%d perPeer=%d maxOut=%d peers=%d reqs=%d cancels=%d", s.maxIn, s.maxPerPeer, s.maxOut, npeers, nreq, len(s.cancel))
	w.AddProvider(func() []*Event {
		var evs []*Event
		for _, r := range s.reqs {
			r := r
			if !r.Issued {
				evs = append(evs, r.IssueEvent())
				continue
			}
			if at, ok := s.cancel[r.Label]; ok && !s.cancelled[r.Label] && r.Returned && w.Step >= at {
				evs = append(evs, Inject("api", "act|"+r.Node.Name+"|"+r.Label+"|ctxcancel", func(string) {
					s.cancelled[r.Label] = true
					w.Probe("c21-cancel")
					w.Effect("act %s %s ctxcancel", r.Node.Name, r.Label)
					r.Cancel()
				}))
			}
		}
		for _, r := range s.reqs {
			r := r
			if at, ok := s.bcancel[r.Label]; ok && !s.cancelled[r.Label] && w.Step >= at && !r.Done() && s.runningAtB(r) {
				evs = append(evs, Inject("api", "act|B|"+r.Label+"|bcancel", func(string) {
					s.cancelled[r.Label] = true
					w.Probe("c21-operator-cancel")
					go func() {
						err := s.b.GS.Cancel(context.Background(), r.ID)
						w.Effect("act B %s cancel returned %v", r.Label, err)
					}()
				}))
			}
		}
		for _, r := range s.reqs {
			r := r
			if at, ok := s.pausedAt[r.ID]; ok && !s.resumed[r.ID] && w.Step > at+3 && !r.Done() {
				evs = append(evs, Inject("api", "act|B|"+r.Label+"|unpause", func(string) {
					s.resumed[r.ID] = true
					w.Probe("c21-resume")
					go func() {
						err := s.b.GS.Unpause(context.Background(), r.ID)
						w.Effect("act B %s unpause returned %v", r.Label, err)
					}()
				}))
			}
		}
		return evs
	})
}

func (s *c21) Describe(w *World) string {
	return fmt.Sprintf("%s peakIn=%d peakOut=%d", s.descr, s.peakIn, s.peakOut)
}

func (s *c21) Done(w *World) bool {
	for _, r := range s.reqs {
		if !r.Done() {
			return false
		}
	}
	return true
}
func (s *c21) Heal(w *World) { w.Net.Heal() }

// Invariant: count traversals in flight. A running responder traversal is, at a
// quiescent point, parked in a block load (its only blocking operation besides
// memory reservation); a running requestor execution has been announced by the
// processing listener and has not yet released its connection protection.
func (s *c21) Invariant(w *World) *Violation {
	inFlight := map[string]bool{}
	perPeer := map[string]map[string]bool{}
	w.mu.Lock()
	for k := range w.gates {
		if strings.HasPrefix(k, "load|B|") {
			parts := strings.Split(k, "|")
			tag := parts[2] // "<peer>:<req>"
			inFlight[tag] = true
			peer := strings.SplitN(tag, ":", 2)[0]
			if perPeer[peer] == nil {
				perPeer[peer] = map[string]bool{}
			}
			perPeer[peer][tag] = true
		}
	}
	w.mu.Unlock()
	if len(inFlight) > s.peakIn {
		s.peakIn = len(inFlight)
	}
	if len(inFlight) > s.maxIn {
		return &Violation{Property: "C21", Rule: "R1", Signature: "incoming-over-limit", Detail: fmt.Sprintf("%d incoming traversals in flight, maximum %d: %v", len(inFlight), s.maxIn, keysOf(inFlight))}
	}
	if s.maxPerPeer > 0 {
		for p, m := range perPeer {
			if len(m) > s.maxPerPeer {
				return &Violation{Property: "C21", Rule: "R1", Signature: "per-peer-over-limit", Detail: fmt.Sprintf("%d traversals in flight for peer %s, per-peer maximum %d", len(m), p, s.maxPerPeer)}
			}
		}
	}
	for _, n := range s.reqNodes {
		started := map[string]bool{}
		n.mu.Lock()
		for _, h := range n.Processing {
			if h.Kind == "out-processing" {
				started[h.Req.String()] = true
			}
		}
		n.mu.Unlock()
		running := 0
		for _, r := range s.reqs {
			if r.Node == n && started[r.ID.String()] && s.heldBy(n, r) {
				running++
			}
		}
		if running > s.peakOut {
			s.peakOut = running
		}
		if running > s.maxOut {
			return &Violation{Property: "C21", Rule: "R1", Signature: "outgoing-over-limit", Detail: fmt.Sprintf("%s runs %d outgoing requests at once, maximum %d", n.Name, running, s.maxOut)}
		}
	}
	return nil
}

func (s *c21) heldBy(n *Node, r *Req) bool {
	for _, k := range n.Host.cm.Protected() {
		if k == string(s.b.ID)+"|"+r.ID.Tag() {
			return true
		}
	}
	return false
}

func keysOf(m map[string]bool) []string {
	var out []string
	for k := range m {
		out = append(out, k)
	}
	return out
}

func (s *c21) Final(w *World) *Violation {
	if s.peakIn == s.maxIn {
		w.Probe("c21-incoming-limit-reached")
	}
	if s.peakOut == s.maxOut {
		w.Probe("c21-outgoing-limit-reached")
	}
	for i, r := range s.reqs {
		if !r.Done() {
			sig := "request-never-finished"
			if !r.Issued {
				continue
			}
			started := false
			for _, h := range s.b.Processing {
				if h.Req == r.ID && h.Kind == "in-processing" {
					started = true
				}
			}
			if !started {
				sig = "request-never-started"
			}
			return &Violation{Property: "C21", Rule: "R2", Signature: sig, Detail: fmt.Sprintf("%s (cancelled=%v) after arrivals stopped and all loads were released fairly; %s", r.Label, s.cancelled[r.Label], s.descr)}
		}
		if s.cancelled[r.Label] {
			continue
		}
		d := s.dags[i]
		ref := Ref(d.Root, AllSelector(8), func(path string, c cid.Cid) ([]byte, bool) { b, ok := d.Blocks[c]; return b, ok }, 0)
		if k, ok := visitsEqual(r.Visits, ref.Visits); !ok || len(r.Errs) > 0 {
			return &Violation{Property: "C21", Rule: "R2", Signature: "request-incomplete", Detail: fmt.Sprintf("%s differs from the reference at visit %d (got %d want %d) errors %v", r.Label, k, len(r.Visits), len(ref.Visits), errStrings(r.Errs))}
		}
	}
	return nil
}

// runningAtB: the responder has started processing the request.
func (s *c21) runningAtB(r *Req) bool {
	s.b.mu.Lock()
	defer s.b.mu.Unlock()
	for _, h := range s.b.Processing {
		if h.Req == r.ID && h.Kind == "in-processing" {
			return true
		}
	}
	return false
}
