package sim

import (
	"context"
	"crypto/sha256"
	"fmt"
	"sort"
	"strings"
	"sync"

	"github.com/ipld/go-ipld-prime"
	cidlink "github.com/ipld/go-ipld-prime/linking/cid"
	"github.com/libp2p/go-libp2p/core/peer"

	"github.com/ipfs/go-graphsync"
	gsimpl "github.com/ipfs/go-graphsync/impl"
	gsnet "github.com/ipfs/go-graphsync/network"
	"go.opentelemetry.io/otel/trace"
)

// RespEvent is one listener notification on the responder side.
type RespEvent struct {
	Step   int
	Peer   string
	Req    graphsync.RequestID
	Status graphsync.ResponseStatusCode
	Err    string
	Cid    string
	Index  int64
}

// HookCall is one hook invocation.
type HookCall struct {
	Step   int
	Kind   string
	Peer   string
	Req    graphsync.RequestID
	Status graphsync.ResponseStatusCode
	Cid    string
	Index  int64
	Exts   []string
	Held   bool // requestor side: the request was still held (connection tag protected) when the hook ran
}

// NodeCfg configures a real graphsync node.
type NodeCfg struct {
	Opts        []gsimpl.Option
	GateReads   bool
	GateCommits bool
	GateHooks   bool // request/block/response hooks park before returning
	Validate    bool // register a request hook that validates every request
	NoPanicCB   bool // build the node without a PanicCallback option (the default configuration)
}

// Node is one real GraphSync instance on the simulated fabric.
type Node struct {
	W      *World
	Name   string
	ID     peer.ID
	Host   *SimHost
	Store  *SimStore
	GS     graphsync.GraphExchange
	Impl   *gsimpl.GraphSync
	Net    gsnet.GraphSyncNetwork
	ctx    context.Context
	cancel context.CancelFunc
	Cfg    NodeCfg

	mu         sync.Mutex
	Completed  []RespEvent
	Cancelled  []RespEvent
	NetErrs    []RespEvent
	BlockSent  []RespEvent
	RecvErrs   []RespEvent
	Incoming   []HookCall // incoming request hook calls (responder)
	OutBlocks  []HookCall // outgoing block hook calls (responder)
	Updates    []HookCall // request updated hook calls (responder)
	Responses  []HookCall // incoming response hook calls (requestor)
	InBlocks   []HookCall // incoming block hook calls (requestor)
	OutReqs    []HookCall // outgoing request hook calls (requestor)
	Processing []HookCall // request processing listeners (both)
	Panics     []string
	Reqs       map[string]*Req
	reqOrder   []string

	// Scripted behaviour, set by scenarios before the run starts.
	OnIncomingRequest  func(p peer.ID, r graphsync.RequestData, a graphsync.IncomingRequestHookActions)
	OnOutgoingBlock    func(p peer.ID, r graphsync.RequestData, b graphsync.BlockData, a graphsync.OutgoingBlockHookActions)
	OnRequestUpdated   func(p peer.ID, r graphsync.RequestData, u graphsync.RequestData, a graphsync.RequestUpdatedHookActions)
	OnIncomingResponse func(p peer.ID, r graphsync.ResponseData, a graphsync.IncomingResponseHookActions)
	OnIncomingBlock    func(p peer.ID, r graphsync.ResponseData, b graphsync.BlockData, a graphsync.IncomingBlockHookActions)
	OnOutgoingRequest  func(p peer.ID, r graphsync.RequestData, a graphsync.OutgoingRequestHookActions)
}

// errText renders an error for the event log without run-specific detail
// (recovered panics carry a stack trace with addresses).
func errText(e error) string {
	t := e.Error()
	if i := strings.Index(t, ", stack trace:"); i >= 0 {
		t = t[:i]
	}
	if len(t) > 300 {
		t = t[:300]
	}
	return t
}

// ReqID derives a deterministic request ID from a label.
func ReqID(label string) graphsync.RequestID {
	h := sha256.Sum256([]byte("req:" + label))
	id, err := graphsync.ParseRequestID(h[:16])
	if err != nil {
		panic(err)
	}
	return id
}

func shortReq(id graphsync.RequestID) string {
	if b := id.Bytes(); len(b) != 16 {
		// not a valid identifier (String would panic): name it by its bytes
		return fmt.Sprintf("bad%d:%x", len(b), b)
	}
	s := id.String()
	if len(s) > 6 {
		return s[:6]
	}
	return s
}

func extNames(names []graphsync.ExtensionName) []string {
	out := make([]string, 0, len(names))
	for _, n := range names {
		out = append(out, string(n))
	}
	sort.Strings(out)
	return out
}

// NewNode creates and starts a real node.
func NewNode(w *World, name string, cfg NodeCfg) *Node {
	if w.Net == nil {
		NewFabric(w)
	}
	h := w.Net.NewHost(name)
	n := &Node{W: w, Name: name, ID: h.id, Host: h, Cfg: cfg, Reqs: map[string]*Req{}}
	n.Store = NewSimStore(w, name)
	n.Store.GateReads = cfg.GateReads
	n.Store.GateCommits = cfg.GateCommits
	w.Nodes[name] = n
	n.start()
	return n
}

func (n *Node) start() {
	w := n.W
	n.ctx, n.cancel = context.WithCancel(context.Background())
	w.cleanup = append(w.cleanup, n.cancel)
	opts := append([]gsimpl.Option{gsimpl.PanicCallback(func(r any, stack string) {
		n.mu.Lock()
		n.Panics = append(n.Panics, fmt.Sprint(r))
		n.mu.Unlock()
		w.Effect("panic-callback %s %v", n.Name, r)
	})}, n.Cfg.Opts...)
	if n.Cfg.NoPanicCB {
		opts = n.Cfg.Opts
	}
	n.Net = gsnet.NewFromLibp2pHost(n.Host)
	w.NameObject(n.Net, n.Name)
	n.GS = gsimpl.New(n.ctx, n.Net, n.Store.LinkSystem(), opts...)
	n.Impl = n.GS.(*gsimpl.GraphSync)
	gs := n.GS
	name := func(p peer.ID) string { return w.Net.Name(p) }
	hookGate := func(kind string, req graphsync.RequestID) {
		if n.Cfg.GateHooks {
			w.Park("hook", "hook|"+n.Name+"|"+kind+"|"+shortReq(req))
		}
	}
	gs.RegisterIncomingRequestHook(func(p peer.ID, r graphsync.RequestData, a graphsync.IncomingRequestHookActions) {
		n.mu.Lock()
		n.Incoming = append(n.Incoming, HookCall{Step: w.Step, Kind: "in-req", Peer: name(p), Req: r.ID()})
		n.mu.Unlock()
		w.Effect("hook %s in-req %s from %s", n.Name, shortReq(r.ID()), name(p))
		tag := name(p) + ":" + shortReq(r.ID())
		a.AugmentContext(func(ctx context.Context) context.Context {
			return trace.ContextWithSpanContext(ctx, TraceTag(tag))
		})
		if n.Cfg.Validate {
			a.ValidateRequest()
		}
		if n.OnIncomingRequest != nil {
			n.OnIncomingRequest(p, r, a)
		}
		hookGate("in-req", r.ID())
	})
	gs.RegisterOutgoingBlockHook(func(p peer.ID, r graphsync.RequestData, b graphsync.BlockData, a graphsync.OutgoingBlockHookActions) {
		n.mu.Lock()
		n.OutBlocks = append(n.OutBlocks, HookCall{Step: w.Step, Kind: "out-block", Peer: name(p), Req: r.ID(), Cid: linkStr(b.Link()), Index: b.Index()})
		n.mu.Unlock()
		w.Effect("hook %s out-block %s #%d %s wire=%d", n.Name, shortReq(r.ID()), b.Index(), linkStr(b.Link()), b.BlockSizeOnWire())
		if n.OnOutgoingBlock != nil {
			n.OnOutgoingBlock(p, r, b, a)
		}
		hookGate("out-block", r.ID())
	})
	gs.RegisterRequestUpdatedHook(func(p peer.ID, r graphsync.RequestData, u graphsync.RequestData, a graphsync.RequestUpdatedHookActions) {
		n.mu.Lock()
		n.Updates = append(n.Updates, HookCall{Step: w.Step, Kind: "updated", Peer: name(p), Req: r.ID()})
		n.mu.Unlock()
		w.Effect("hook %s updated %s from %s", n.Name, shortReq(r.ID()), name(p))
		if n.OnRequestUpdated != nil {
			n.OnRequestUpdated(p, r, u, a)
		}
	})
	gs.RegisterIncomingResponseHook(func(p peer.ID, r graphsync.ResponseData, a graphsync.IncomingResponseHookActions) {
		n.mu.Lock()
		held := false
		// in progress = the requestor still protects a connection for the request (to whichever peer)
		for _, k := range n.Host.cm.Protected() {
			if strings.HasSuffix(k, "|"+r.RequestID().Tag()) {
				held = true
			}
		}
		n.Responses = append(n.Responses, HookCall{Step: w.Step, Kind: "in-resp", Peer: name(p), Req: r.RequestID(), Status: r.Status(), Held: held, Exts: extNames(r.(interface {
			ExtensionNames() []graphsync.ExtensionName
		}).ExtensionNames())})
		n.mu.Unlock()
		w.Effect("hook %s in-resp %s status=%d from %s", n.Name, shortReq(r.RequestID()), r.Status(), name(p))
		if n.OnIncomingResponse != nil {
			n.OnIncomingResponse(p, r, a)
		}
	})
	gs.RegisterIncomingBlockHook(func(p peer.ID, r graphsync.ResponseData, b graphsync.BlockData, a graphsync.IncomingBlockHookActions) {
		n.mu.Lock()
		var rexts []string
		if en, ok := r.(interface {
			ExtensionNames() []graphsync.ExtensionName
		}); ok {
			rexts = extNames(en.ExtensionNames())
		}
		n.InBlocks = append(n.InBlocks, HookCall{Step: w.Step, Kind: "in-block", Peer: name(p), Req: r.RequestID(), Cid: linkStr(b.Link()), Index: b.Index(), Status: r.Status(), Exts: rexts})
		n.mu.Unlock()
		w.Effect("hook %s in-block %s #%d %s wire=%d", n.Name, shortReq(r.RequestID()), b.Index(), linkStr(b.Link()), b.BlockSizeOnWire())
		if n.OnIncomingBlock != nil {
			n.OnIncomingBlock(p, r, b, a)
		}
		hookGate("in-block", r.RequestID())
	})
	gs.RegisterOutgoingRequestHook(func(p peer.ID, r graphsync.RequestData, a graphsync.OutgoingRequestHookActions) {
		n.mu.Lock()
		n.OutReqs = append(n.OutReqs, HookCall{Step: w.Step, Kind: "out-req", Peer: name(p), Req: r.ID()})
		n.mu.Unlock()
		if n.OnOutgoingRequest != nil {
			n.OnOutgoingRequest(p, r, a)
		}
	})
	gs.RegisterCompletedResponseListener(func(p peer.ID, r graphsync.RequestData, s graphsync.ResponseStatusCode) {
		n.mu.Lock()
		n.Completed = append(n.Completed, RespEvent{Step: w.Step, Peer: name(p), Req: r.ID(), Status: s})
		n.mu.Unlock()
		w.Effect("listener %s completed %s status=%d", n.Name, shortReq(r.ID()), s)
	})
	gs.RegisterRequestorCancelledListener(func(p peer.ID, r graphsync.RequestData) {
		n.mu.Lock()
		n.Cancelled = append(n.Cancelled, RespEvent{Step: w.Step, Peer: name(p), Req: r.ID()})
		n.mu.Unlock()
		w.Effect("listener %s requestor-cancelled %s", n.Name, shortReq(r.ID()))
	})
	gs.RegisterNetworkErrorListener(func(p peer.ID, r graphsync.RequestData, err error) {
		n.mu.Lock()
		n.NetErrs = append(n.NetErrs, RespEvent{Step: w.Step, Peer: name(p), Req: r.ID(), Err: err.Error()})
		n.mu.Unlock()
		w.Effect("listener %s network-error %s", n.Name, shortReq(r.ID()))
	})
	gs.RegisterReceiverNetworkErrorListener(func(p peer.ID, err error) {
		n.mu.Lock()
		n.RecvErrs = append(n.RecvErrs, RespEvent{Step: w.Step, Peer: name(p), Err: err.Error()})
		n.mu.Unlock()
		w.Effect("listener %s receive-error from %s", n.Name, name(p))
	})
	gs.RegisterBlockSentListener(func(p peer.ID, r graphsync.RequestData, b graphsync.BlockData) {
		n.mu.Lock()
		n.BlockSent = append(n.BlockSent, RespEvent{Step: w.Step, Peer: name(p), Req: r.ID(), Cid: linkStr(b.Link()), Index: b.Index()})
		n.mu.Unlock()
		w.Effect("listener %s block-sent %s #%d", n.Name, shortReq(r.ID()), b.Index())
	})
	gs.RegisterIncomingRequestProcessingListener(func(p peer.ID, r graphsync.RequestData, c int) {
		n.mu.Lock()
		n.Processing = append(n.Processing, HookCall{Step: w.Step, Kind: "in-processing", Peer: name(p), Req: r.ID(), Index: int64(c)})
		n.mu.Unlock()
		w.Effect("listener %s in-processing %s", n.Name, shortReq(r.ID()))
	})
	gs.RegisterOutgoingRequestProcessingListener(func(p peer.ID, r graphsync.RequestData, c int) {
		n.mu.Lock()
		n.Processing = append(n.Processing, HookCall{Step: w.Step, Kind: "out-processing", Peer: name(p), Req: r.ID(), Index: int64(c)})
		n.mu.Unlock()
		w.Effect("listener %s out-processing %s", n.Name, shortReq(r.ID()))
	})
}

// Crash cancels the node's context and resets its streams; the store survives.
func (n *Node) Crash() {
	n.W.Fault("crash")
	n.W.Effect("crash %s", n.Name)
	n.Host.SetDown(true)
	n.cancel()
	f := n.W.Net
	f.mu.Lock()
	var ss []*SimStream
	for _, s := range f.streams {
		if s.from == n.Host || s.to == n.Host {
			ss = append(ss, s)
		}
	}
	for k := range f.connected {
		f.connected[k] = false
	}
	f.mu.Unlock()
	for _, s := range ss {
		s.doReset("peer crashed")
	}
}

// Progress item as read by the caller.
type Req struct {
	Label string
	ID    graphsync.RequestID
	Node  *Node
	To    peer.ID
	Root  cidlink.Link
	Sel   ipld.Node
	Exts  []graphsync.ExtensionData

	Ctx    context.Context
	Cancel context.CancelFunc

	mu         sync.Mutex
	Issued     bool
	Returned   bool
	Visits     []Visit
	Errs       []error
	ProgClosed bool
	ErrClosed  bool
	ClosedStep int
}

func (r *Req) Done() bool {
	r.mu.Lock()
	defer r.mu.Unlock()
	return r.ProgClosed && r.ErrClosed
}

// TraceTag makes a span context whose trace ID encodes a short tag; otel's
// no-op tracers propagate it into every derived context, so the store can
// tell which request a load belongs to.
func TraceTag(tag string) trace.SpanContext {
	var tid trace.TraceID
	var sid trace.SpanID
	copy(tid[:], []byte(tag))
	tid[15] = 1
	sid[7] = 1
	return trace.NewSpanContext(trace.SpanContextConfig{TraceID: tid, SpanID: sid})
}

// TagOf extracts the tag from a context (empty if none).
func TagOf(ctx context.Context) string {
	if ctx == nil {
		return ""
	}
	sc := trace.SpanContextFromContext(ctx)
	if !sc.HasTraceID() {
		return ""
	}
	tid := sc.TraceID()
	b := tid[:15]
	for len(b) > 0 && b[len(b)-1] == 0 {
		b = b[:len(b)-1]
	}
	return string(b)
}

// NewReq registers a request to be issued when the scheduler picks its event.
func (n *Node) NewReq(label string, to *Node, root cidlink.Link, sel ipld.Node, exts ...graphsync.ExtensionData) *Req {
	r := &Req{Label: label, ID: ReqID(label), Node: n, To: to.ID, Root: root, Sel: sel, Exts: exts}
	base := trace.ContextWithSpanContext(context.Background(), TraceTag(label))
	r.Ctx, r.Cancel = context.WithCancel(context.WithValue(base, graphsync.RequestIDContextKey{}, r.ID))
	n.W.cleanup = append(n.W.cleanup, r.Cancel)
	n.mu.Lock()
	n.Reqs[label] = r
	n.reqOrder = append(n.reqOrder, label)
	n.mu.Unlock()
	return r
}

// IssueEvent returns the injectable event that issues the request.
func (r *Req) IssueEvent() *Event {
	return Inject("api", "api|"+r.Node.Name+"|request|"+r.Label, func(string) { r.Issue() })
}

// Issue starts the request from a helper goroutine.
func (r *Req) Issue() {
	r.mu.Lock()
	if r.Issued {
		r.mu.Unlock()
		return
	}
	r.Issued = true
	r.mu.Unlock()
	w := r.Node.W
	w.Effect("api %s request %s -> %s root=%s", r.Node.Name, r.Label, w.Net.Name(r.To), shortCid(r.Root.Cid))
	go func() {
		prog, errs := r.Node.GS.Request(r.Ctx, r.To, r.Root, r.Sel, r.Exts...)
		r.mu.Lock()
		r.Returned = true
		r.mu.Unlock()
		w.Effect("api %s request %s returned", r.Node.Name, r.Label)
		go func() {
			for {
				p, ok := <-prog
				if w.Park("read", "read|"+r.Node.Name+"|"+r.Label+"|p") == "abort" {
					return
				}
				r.mu.Lock()
				if !ok {
					r.ProgClosed = true
					r.ClosedStep = w.Step
					r.mu.Unlock()
					w.Effect("read %s %s progress closed", r.Node.Name, r.Label)
					return
				}
				v := Visit{Path: p.Path.String(), Digest: NodeDigest(p.Node), LastPath: p.LastBlock.Path.String(), LastBlock: linkStr(p.LastBlock.Link)}
				r.Visits = append(r.Visits, v)
				r.mu.Unlock()
				w.Effect("read %s %s progress %s", r.Node.Name, r.Label, v)
			}
		}()
		go func() {
			for {
				e, ok := <-errs
				if w.Park("read", "read|"+r.Node.Name+"|"+r.Label+"|e") == "abort" {
					return
				}
				r.mu.Lock()
				if !ok {
					r.ErrClosed = true
					r.mu.Unlock()
					w.Effect("read %s %s errors closed", r.Node.Name, r.Label)
					return
				}
				r.Errs = append(r.Errs, e)
				r.mu.Unlock()
				w.Effect("read %s %s error %T %s", r.Node.Name, r.Label, e, errText(e))
			}
		}()
	}()
}
