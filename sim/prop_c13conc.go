package sim

import (
	"fmt"
	"sort"
	"strings"
	"time"

	"github.com/anishathalye/porcupine"

	"github.com/ipfs/go-graphsync/allocator"
)

// allocConc: several callers use one allocator at the same time (the message queues of different peers do). Each
// caller is a goroutine with a script of its own; the scheduler decides when each operation starts and, in the
// lock-yield build (tools/lockyield over allocator/allocator.go), where inside the allocator it is overtaken.
// The recorded history (invoke / return stamped with a global event counter) must be linearizable with respect
// to the executable model of C13/C14: reads (Stats, AllocatedForPeer) are the observations, and a last
// observation made after every caller has returned reports the fate of every allocation.
type allocConc struct {
	prop           string
	a              *allocator.Allocator
	total, perPeer uint64
	plans          [][]allocOp
	seq            int
	hist           []porcupine.Operation
	chans          []<-chan error
	doneCallers    int
	descr          string
	observed       bool
}

func newC13Conc() Scenario { return &allocConc{prop: "C13"} }
func newC14Conc() Scenario { return &allocConc{prop: "C14"} }

func (s *allocConc) Name() string     { return "allocator-concurrent-callers" }
func (s *allocConc) Property() string { return s.prop }

type allocIn struct {
	kind string // alloc | release | releasePeer | stats | peer | final
	peer string
	amt  uint64
	id   int // alloc: index of the allocation
}

type allocOut struct {
	total, pendBytes, pendPeers uint64 // stats, final
	peerTotal                   uint64 // peer
	fates                       string // final: one letter per allocation (g granted, f failed, w waiting)
}

// allocState is the model state handed around by porcupine (copied on every step).
type allocState struct {
	m     *allocModel
	fates []*allocWaiter
}

func (st allocState) clone() allocState {
	n := allocState{m: &allocModel{total: st.m.total, perPeer: st.m.perPeer, alloc: map[string]uint64{}, pending: map[string][]*allocWaiter{}, next: st.m.next}}
	cp := map[*allocWaiter]*allocWaiter{}
	for _, w := range st.fates {
		c := *w
		cp[w] = &c
		n.fates = append(n.fates, &c)
	}
	for p, v := range st.m.alloc {
		n.m.alloc[p] = v
	}
	for p, q := range st.m.pending {
		for _, w := range q {
			n.m.pending[p] = append(n.m.pending[p], cp[w])
		}
	}
	return n
}

func (st allocState) key() string {
	var b strings.Builder
	var ps []string
	for p := range st.m.alloc {
		ps = append(ps, p)
	}
	for p := range st.m.pending {
		if _, ok := st.m.alloc[p]; !ok {
			ps = append(ps, p)
		}
	}
	sort.Strings(ps)
	for _, p := range ps {
		fmt.Fprintf(&b, "%s=%d[", p, st.m.alloc[p])
		for _, w := range st.m.pending[p] {
			fmt.Fprintf(&b, "%d:%d:%d,", w.id, w.amount, w.order)
		}
		b.WriteString("]")
	}
	for _, w := range st.fates {
		fmt.Fprintf(&b, "|%d%s", w.id, w.state[:1])
	}
	return b.String()
}

func (s *allocConc) model() porcupine.Model {
	c13 := s.prop == "C13"
	return porcupine.Model{
		Init: func() interface{} {
			return allocState{m: &allocModel{total: s.total, perPeer: s.perPeer, alloc: map[string]uint64{}, pending: map[string][]*allocWaiter{}}}
		},
		Step: func(state, input, output interface{}) (bool, interface{}) {
			st := state.(allocState).clone()
			in, out := input.(allocIn), output.(allocOut)
			switch in.kind {
			case "alloc":
				w := st.m.allocate(in.peer, in.amt, in.id)
				st.fates = append(st.fates, w)
			case "release":
				st.m.release(in.peer, in.amt)
			case "releasePeer":
				st.m.releasePeer(in.peer)
			case "stats":
				pb, pp := st.m.pendingBytes()
				if c13 && (out.total != st.m.sum() || out.pendBytes != pb || out.pendPeers != pp) {
					return false, st
				}
			case "peer":
				if c13 && out.peerTotal != st.m.alloc[in.peer] {
					return false, st
				}
			case "final":
				pb, pp := st.m.pendingBytes()
				if c13 && (out.total != st.m.sum() || out.pendBytes != pb || out.pendPeers != pp) {
					return false, st
				}
				if !c13 {
					f := make([]byte, len(out.fates))
					for i := range f {
						f[i] = '?'
					}
					for _, w := range st.fates {
						if w.id < len(f) {
							f[w.id] = w.state[0]
						}
					}
					if string(f) != out.fates {
						return false, st
					}
				}
			}
			return true, st
		},
		Equal: func(a, b interface{}) bool { return a.(allocState).key() == b.(allocState).key() },
		DescribeOperation: func(input, output interface{}) string {
			return fmt.Sprintf("%+v -> %+v", input, output)
		},
	}
}

func (s *allocConc) Build(w *World) {
	t := w.Tape
	w.Prof.Weights = map[string]int{"advance": 0}
	unit := uint64([]int{1, 10}[t.Draw(2)])
	s.perPeer = unit * uint64(2+t.Draw(4))
	s.total = unit * uint64(2+t.Draw(8))
	s.a = allocator.NewAllocator(s.total, s.perPeer)
	npeers := 1 + t.Draw(3)
	ncallers := 2 + t.Draw(2)
	nalloc := 0
	for c := 0; c < ncallers; c++ {
		var plan []allocOp
		for k := 0; k < 1+t.Draw(4); k++ {
			p := string(rune('p' + t.Draw(npeers)))
			switch x := t.Draw(10); {
			case x < 4:
				plan = append(plan, allocOp{"alloc", p, unit * uint64([]int{1, 2, 3, int(s.perPeer/unit) + 1}[t.Draw(4)])})
				nalloc++
			case x < 7:
				plan = append(plan, allocOp{"release", p, unit * uint64([]int{1, 2, 3, 50}[t.Draw(4)])})
			case x < 8:
				plan = append(plan, allocOp{"releasePeer", p, 0})
			case x < 9:
				plan = append(plan, allocOp{"stats", p, 0})
			default:
				plan = append(plan, allocOp{"peer", p, 0})
			}
		}
		s.plans = append(s.plans, plan)
	}
	s.descr = fmt.Sprintf("total=%d perPeer=%d peers=%d callers=%d allocations=%d", s.total, s.perPeer, npeers, ncallers, nalloc)
	w.EnableLockYields("allocator/allocator.go")
	for c := range s.plans {
		c := c
		go func() {
			for i, op := range s.plans[c] {
				if w.Park("api", fmt.Sprintf("op|c%d|%02d", c, i)) == "abort" {
					return
				}
				in := allocIn{kind: op.kind, peer: op.peer, amt: op.amt}
				var out allocOut
				s.seq++
				call := s.seq
				switch op.kind {
				case "alloc":
					in.id = len(s.chans)
					s.chans = append(s.chans, nil) // (the id is taken at invocation)
					s.chans[in.id] = s.a.AllocateBlockMemory(pid(op.peer), op.amt)
				case "release":
					_ = s.a.ReleaseBlockMemory(pid(op.peer), op.amt)
				case "releasePeer":
					_ = s.a.ReleasePeerMemory(pid(op.peer))
				case "stats":
					st := s.a.Stats()
					out = allocOut{total: st.TotalAllocatedAllPeers, pendBytes: st.TotalPendingAllocations, pendPeers: st.NumPeersWithPendingAllocations}
				case "peer":
					out = allocOut{peerTotal: s.a.AllocatedForPeer(pid(op.peer))}
				}
				s.seq++
				s.hist = append(s.hist, porcupine.Operation{ClientId: c, Input: in, Call: int64(call), Output: out, Return: int64(s.seq)})
				w.Effect("c%d %s %s %d [%d,%d] -> %+v", c, op.kind, op.peer, op.amt, call, s.seq, out)
			}
			s.doneCallers++
		}()
	}
}

func (s *allocConc) Describe(w *World) string      { return s.descr }
func (s *allocConc) Done(w *World) bool            { return s.doneCallers == len(s.plans) }
func (s *allocConc) Heal(w *World)                 {}
func (s *allocConc) Invariant(w *World) *Violation { return nil }

func (s *allocConc) Final(w *World) *Violation {
	if s.doneCallers != len(s.plans) {
		return &Violation{Property: s.prop, Rule: "R0", Signature: "not-terminated", Detail: "a call into the allocator never returned; " + s.descr}
	}
	// the last observation, after every caller has returned (made by the scheduler's own goroutine: no yields)
	delete(w.Yields, "lock:allocator/allocator.go")
	st := s.a.Stats()
	out := allocOut{total: st.TotalAllocatedAllPeers, pendBytes: st.TotalPendingAllocations, pendPeers: st.NumPeersWithPendingAllocations}
	f := make([]byte, len(s.chans))
	for i, ch := range s.chans {
		f[i] = 'w'
		select {
		case err := <-ch:
			if err == nil {
				f[i] = 'g'
			} else {
				f[i] = 'f'
			}
		default:
		}
	}
	out.fates = string(f)
	s.seq++
	hist := append(append([]porcupine.Operation(nil), s.hist...), porcupine.Operation{ClientId: len(s.plans), Input: allocIn{kind: "final"}, Call: int64(s.seq), Output: out, Return: int64(s.seq + 1)})
	overlap := false
	for i, a := range hist {
		for _, b := range hist[i+1:] {
			if a.Call < b.Return && b.Call < a.Return {
				overlap = true
			}
		}
	}
	if overlap {
		w.Probe("alloc-calls-overlapped-inside-the-allocator")
	}
	switch porcupine.CheckOperationsTimeout(s.model(), hist, 20*time.Second) {
	case porcupine.Illegal:
		var lines []string
		for _, o := range hist {
			lines = append(lines, fmt.Sprintf("c%d [%d,%d] %+v -> %+v", o.ClientId, o.Call, o.Return, o.Input, o.Output))
		}
		sig := "history-not-linearizable:accounting"
		if s.prop == "C14" {
			sig = "history-not-linearizable:grants"
		}
		return &Violation{Property: s.prop, Rule: map[string]string{"C13": "R1", "C14": "R2"}[s.prop], Signature: sig, Detail: fmt.Sprintf("no order of the overlapping calls explains what the callers saw (model: %s); history: %s", s.descr, strings.Join(lines, "; "))}
	case porcupine.Unknown:
		w.Probe("alloc-linearizability-check-timed-out")
	}
	return nil
}
