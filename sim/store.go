package sim

import (
	"bytes"
	"crypto/sha256"
	"errors"
	"fmt"
	"io"
	"sync"

	"github.com/ipfs/go-cid"
	"github.com/ipld/go-ipld-prime"
	"github.com/ipld/go-ipld-prime/datamodel"
	"github.com/ipld/go-ipld-prime/linking"
	cidlink "github.com/ipld/go-ipld-prime/linking/cid"
)

// CommitRec is one committed write.
type CommitRec struct {
	Step int
	Cid  cid.Cid
	Hash [32]byte
	Len  int
}

// ReadRec is one read attempt.
type ReadRec struct {
	Step  int
	Cid   cid.Cid
	Found bool
}

// SimStore is a map-backed block store whose reads and commits are gates.
type SimStore struct {
	w    *World
	node string
	mu   sync.Mutex
	data map[cid.Cid][]byte

	Commits []CommitRec
	Reads   []ReadRec

	GateReads   bool
	GateCommits bool
	ReadFaults  []string // non-plain outcomes offered at a read gate: "err", "panic"
	WriteFaults []string // at a commit gate: "err", "panic"
	// PanicAtRead / PanicAtCommit inject a panic at the n-th (1-based) operation; 0 = never.
	PanicAtRead   int
	PanicAtCommit int
	ErrAtRead     int
	nReads        int
	nCommits      int
	// OnRead / OnCommit run inside the storage function (after the gate); they may panic.
	OnRead   func(c cid.Cid)
	OnCommit func(c cid.Cid)
}

func NewSimStore(w *World, node string) *SimStore {
	return &SimStore{w: w, node: node, data: map[cid.Cid][]byte{}, GateReads: true, GateCommits: true}
}

func (s *SimStore) Put(c cid.Cid, b []byte) {
	s.mu.Lock()
	s.data[c] = b
	s.mu.Unlock()
}

func (s *SimStore) Has(c cid.Cid) bool {
	s.mu.Lock()
	defer s.mu.Unlock()
	_, ok := s.data[c]
	return ok
}

func (s *SimStore) Get(c cid.Cid) ([]byte, bool) {
	s.mu.Lock()
	defer s.mu.Unlock()
	b, ok := s.data[c]
	return b, ok
}

func (s *SimStore) Snapshot() map[cid.Cid][]byte {
	s.mu.Lock()
	defer s.mu.Unlock()
	out := make(map[cid.Cid][]byte, len(s.data))
	for k, v := range s.data {
		out[k] = v
	}
	return out
}

func (s *SimStore) Len() int {
	s.mu.Lock()
	defer s.mu.Unlock()
	return len(s.data)
}

// LinkSystem returns a link system over this store.
func (s *SimStore) LinkSystem() ipld.LinkSystem {
	lsys := cidlink.DefaultLinkSystem()
	lsys.TrustedStorage = true
	lsys.StorageReadOpener = s.read
	lsys.StorageWriteOpener = s.write
	return lsys
}

func (s *SimStore) read(lc linking.LinkContext, l datamodel.Link) (io.Reader, error) {
	c := l.(cidlink.Link).Cid
	s.mu.Lock()
	s.nReads++
	n := s.nReads
	s.mu.Unlock()
	o := "ok"
	if s.GateReads {
		outs := append([]string{"ok"}, s.ReadFaults...)
		o = s.w.Park("load", "load|"+s.node+"|"+TagOf(lc.Ctx)+"|"+shortCid(c), outs...)
	}
	if s.PanicAtRead == n {
		o = "panic"
	}
	if s.ErrAtRead == n {
		o = "err"
	}
	switch o {
	case "abort":
		return nil, errors.New("sim: aborted")
	case "err":
		s.w.Fault("store-read-err")
		s.w.Effect("store %s read %s -> I/O error", s.node, shortCid(c))
		return nil, errors.New("sim: store I/O error")
	case "panic":
		s.w.Fault("store-read-panic")
		s.w.Effect("store %s read %s -> PANIC", s.node, shortCid(c))
		panic(fmt.Sprintf("sim: injected panic in storage read of %s", shortCid(c)))
	case "short", "torn":
		// the stream opens, yields the first half of the block and then fails: a short read
		// (io.ErrUnexpectedEOF) or an I/O error in mid-stream
		if b, ok := s.Get(c); ok && len(b) > 1 {
			s.w.Fault("store-read-" + o)
			s.w.Effect("store %s read %s -> %d of %d bytes, then fails (%s)", s.node, shortCid(c), len(b)/2, len(b), o)
			err := io.ErrUnexpectedEOF
			if o == "torn" {
				err = errors.New("sim: I/O error in mid-stream")
			}
			return &failingReader{data: b[:len(b)/2], err: err}, nil
		}
	}
	if s.OnRead != nil {
		s.OnRead(c)
	}
	s.mu.Lock()
	b, ok := s.data[c]
	s.Reads = append(s.Reads, ReadRec{Step: s.w.Step, Cid: c, Found: ok})
	s.mu.Unlock()
	s.w.Effect("store %s read %s found=%v", s.node, shortCid(c), ok)
	if !ok {
		return nil, notFound{c}
	}
	return bytes.NewReader(b), nil
}

// failingReader yields its data and then the error (it has no Bytes method: callers must read it).
type failingReader struct {
	data []byte
	err  error
}

func (r *failingReader) Read(p []byte) (int, error) {
	if len(r.data) == 0 {
		return 0, r.err
	}
	n := copy(p, r.data)
	r.data = r.data[n:]
	return n, nil
}

type notFound struct{ c cid.Cid }

func (n notFound) Error() string  { return "sim: block not found " + n.c.String() }
func (n notFound) NotFound() bool { return true }

func (s *SimStore) write(lc linking.LinkContext) (io.Writer, linking.BlockWriteCommitter, error) {
	var buf bytes.Buffer
	return &buf, func(l datamodel.Link) error {
		c := l.(cidlink.Link).Cid
		s.mu.Lock()
		s.nCommits++
		n := s.nCommits
		s.mu.Unlock()
		o := "ok"
		if s.GateCommits {
			outs := append([]string{"ok"}, s.WriteFaults...)
			o = s.w.Park("commit", "commit|"+s.node+"|"+TagOf(lc.Ctx)+"|"+shortCid(c), outs...)
		}
		if s.PanicAtCommit == n {
			o = "panic"
		}
		switch o {
		case "abort":
			return errors.New("sim: aborted")
		case "err":
			s.w.Fault("store-commit-err")
			s.w.Effect("store %s commit %s -> I/O error", s.node, shortCid(c))
			return errors.New("sim: store commit error")
		case "panic":
			s.w.Fault("store-commit-panic")
			s.w.Effect("store %s commit %s -> PANIC", s.node, shortCid(c))
			panic(fmt.Sprintf("sim: injected panic in storage commit of %s", shortCid(c)))
		}
		if s.OnCommit != nil {
			s.OnCommit(c)
		}
		b := append([]byte(nil), buf.Bytes()...)
		s.mu.Lock()
		s.data[c] = b
		s.Commits = append(s.Commits, CommitRec{Step: s.w.Step, Cid: c, Hash: sha256.Sum256(b), Len: len(b)})
		s.mu.Unlock()
		s.w.Effect("store %s commit %s %d bytes", s.node, shortCid(c), len(b))
		return nil
	}, nil
}
