package sim

import (
	"fmt"
	"sort"
	"strings"

	"github.com/ipfs/go-cid"
	"github.com/ipld/go-ipld-prime"

	"github.com/ipfs/go-graphsync"
)

// Split assigns each block of a DAG to the requestor store, the responder
// store, both or neither.
type Split struct {
	Rq map[cid.Cid]bool
	Rs map[cid.Cid]bool
}

// GenSplit draws a split. mode 0: responder has everything, requestor a random
// subset; otherwise per-block 4-way choice with a bias drawn per run.
func GenSplit(t *Tape, d *DAG) Split {
	s := Split{Rq: map[cid.Cid]bool{}, Rs: map[cid.Cid]bool{}}
	mode := t.Draw(4)
	rqPm := []int{0, 150, 400, 700}[t.Draw(4)]
	nonePm := []int{0, 0, 100, 250}[t.Draw(4)]
	for _, c := range d.Order {
		inRq := t.Chance(rqPm)
		inRs := true
		if mode >= 2 {
			if t.Chance(nonePm) {
				inRs = false
				if t.Chance(500) {
					inRq = false
				}
			}
		}
		if mode == 3 && c.Equals(d.Root.Cid) && t.Chance(100) {
			inRs = false
		}
		if inRq {
			s.Rq[c] = true
		}
		if inRs {
			s.Rs[c] = true
		}
	}
	return s
}

func (s Split) String(d *DAG) string {
	var sb strings.Builder
	for _, c := range d.Order {
		ch := "-"
		switch {
		case s.Rq[c] && s.Rs[c]:
			ch = "b"
		case s.Rq[c]:
			ch = "q"
		case s.Rs[c]:
			ch = "s"
		}
		sb.WriteString(ch)
	}
	return sb.String()
}

// SplitResolver is R_split(Rq0, Rs): a link resolves from the requestor's own
// store, or from the responder's store along paths the responder can itself
// traverse.
func SplitResolver(d *DAG, sp Split) Resolver {
	type rec struct {
		path  string
		reach bool // the responder's own traversal reaches and has this block
	}
	var loaded []rec
	// blocks obtained from the responder earlier in this traversal are in the
	// requestor's own store from then on
	obtained := map[cid.Cid]bool{}
	return func(path string, c cid.Cid) ([]byte, bool) {
		// parent = longest loaded path that is a proper segment-prefix of path
		parentReach := true
		best := -1
		for _, r := range loaded {
			if r.path == "" && path != "" || (r.path != "" && strings.HasPrefix(path, r.path+"/")) {
				if len(r.path) > best {
					best = len(r.path)
					parentReach = r.reach
				}
			}
		}
		respHas := parentReach && sp.Rs[c]
		found := sp.Rq[c] || respHas || obtained[c]
		if respHas {
			obtained[c] = true
		}
		if isIdentity(c) {
			found = true
			respHas = parentReach
		}
		if found {
			// later loads at the same path (cannot happen in a tree walk) overwrite
			loaded = append(loaded, rec{path, respHas})
		}
		if !found {
			return nil, false
		}
		return d.Blocks[c], true
	}
}

// isIdentity: identity-hash CIDs get no special treatment in graphsync or in
// SimStore (they are ordinary blocks), so the oracle does not special-case them.
func isIdentity(c cid.Cid) bool { return false }

// c02 is the single-request completeness scenario.
type c02 struct {
	dag     *DAG
	sel     ipld.Node
	selDesc string
	split   Split
	req     *Req
	a, b    *Node
	issued  bool
	prop    string
}

func newC02() Scenario { return &c02{prop: "C02"} }

func (s *c02) Name() string     { return "single-request/split" }
func (s *c02) Property() string { return s.prop }

// drawProfile sets per-run scheduler weights.
func drawProfile(w *World) {
	t := w.Tape
	w.Prof.Weights = map[string]int{"advance": 1}
	for _, c := range []string{"send", "deliver", "load", "commit", "read", "api", "hook", "notify", "connect"} {
		w.Prof.Weights[c] = []int{10, 10, 10, 1, 40, 3}[t.Draw(6)]
	}
	w.Prof.Weights["yield"] = []int{10, 40, 40, 3}[t.Draw(4)]
	w.Prof.RunToBlock = []int{0, 0, 300, 800}[t.Draw(4)]
	if t.Chance(500) {
		w.OrderSalt = uint64(1 + t.Draw(1<<20))
	}
}

func populate(n *Node, d *DAG, has map[cid.Cid]bool) {
	for _, c := range d.Order {
		if has[c] {
			n.Store.Put(c, d.Blocks[c])
		}
	}
}

func (s *c02) Build(w *World) {
	t := w.Tape
	drawProfile(w)
	s.dag = GenDAG(t, GenCfg{MaxBlocks: 3 + t.Draw(22), MaxDepth: 2 + t.Draw(4), BlockPad: []int{0, 0, 40, 600}[t.Draw(4)], Share: []int{0, 100, 300}[t.Draw(3)], Identity: []int{0, 0, 60}[t.Draw(3)], Empty: []int{0, 0, 80}[t.Draw(3)], Alias: []int{0, 0, 100}[t.Draw(3)]})
	s.sel, s.selDesc = GenSelector(t, 8)
	s.split = GenSplit(t, s.dag)
	cfg := NodeCfg{GateReads: true, GateCommits: true}
	s.a = NewNode(w, "A", cfg)
	s.b = NewNode(w, "B", cfg)
	populate(s.a, s.dag, s.split.Rq)
	populate(s.b, s.dag, s.split.Rs)
	s.req = s.a.NewReq("r1", s.b, s.dag.Root, s.sel)
	w.AddProvider(func() []*Event {
		if !s.req.Issued {
			return []*Event{s.req.IssueEvent()}
		}
		return nil
	})
}

func (s *c02) Describe(w *World) string {
	return fmt.Sprintf("dag=%d blocks sel=%s split=%s", len(s.dag.Order), s.selDesc, s.split.String(s.dag))
}

func (s *c02) Done(w *World) bool { return s.req.Done() }
func (s *c02) Heal(w *World)      { w.Net.Heal() }

func (s *c02) Invariant(w *World) *Violation { return nil }

func visitsEqual(a, b []Visit) (int, bool) {
	n := len(a)
	if len(b) < n {
		n = len(b)
	}
	for i := 0; i < n; i++ {
		if a[i] != b[i] {
			return i, false
		}
	}
	if len(a) != len(b) {
		return n, false
	}
	return 0, true
}

func missingOf(errs []error) (miss []string, other []string) {
	for _, e := range errs {
		if m, ok := e.(graphsync.RemoteMissingBlockErr); ok {
			miss = append(miss, linkStr(m.Link)+"@"+m.Path.String())
		} else {
			other = append(other, fmt.Sprintf("%T:%v", e, e))
		}
	}
	sort.Strings(miss)
	return
}

// checkSingle compares one finished request with the reference traversal.
func checkSingle(prop string, r *Req, d *DAG, sel ipld.Node, sp Split, finalStore map[cid.Cid][]byte) *Violation {
	// The selector's identity is its wire (dag-cbor) form: map entries are in
	// canonical key order there. The reference walks that form.
	csel, nonCanon := CanonicalSelector(sel)
	v := checkSingleCanon(prop, r, d, csel, sp, finalStore)
	_ = nonCanon // the requestor now walks the canonical form too (fixed defect); no tag
	if v != nil && SkipCountDesync(d, csel, sp) {
		// input class of a recorded finding: the requestor loaded N blocks from its
		// own store before going remote and asks the responder to skip its first N,
		// but the responder lacks one of them, so its own numbering differs
		v.Signature = "skipcount-desync:" + v.Signature
	}
	if v != nil && RefLoadsPathTwice(d, csel, sp) {
		// input class of a recorded finding: the selector makes the traversal
		// load the same link path twice (go-ipld-prime's ExploreUnion does not
		// dedupe overlapping interests)
		v.Signature = "duplicate-path-load:" + v.Signature
	}
	return v
}

// selectorOrderMatters: only ExploreFields ("f") maps impose a visiting order.
func selectorOrderMatters(sel ipld.Node) bool {
	var buf strings.Builder
	_ = dagjsonEncode(sel, &buf)
	return strings.Contains(buf.String(), "\"f>\"")
}

// LinkSeqDiverge compares the sequence of links the requestor's traversal loads
// (every block either peer holds, R_split) with the sequence the responder's own
// traversal visits over its own store (missing links are visited, not descended),
// position by position up to upto. do-not-send-first-blocks is a position in that
// sequence, so the two peers only mean the same thing by it while the sequences agree.
func LinkSeqDiverge(d *DAG, sel ipld.Node, sp Split, upto int) bool {
	mine := Ref(d.Root, sel, SplitResolver(d, sp), 0).Loads
	theirs := Ref(d.Root, sel, func(path string, c cid.Cid) ([]byte, bool) {
		if sp.Rs[c] {
			return d.Blocks[c], true
		}
		return nil, false
	}, 0).Loads
	for i := 0; i < upto && i < len(mine) && i < len(theirs); i++ {
		if mine[i].Path != theirs[i].Path || mine[i].Cid != theirs[i].Cid {
			return true
		}
	}
	return false
}

// SkipCountDesync reports whether, within the requestor's offline prefix (the
// blocks it loads from its own store before the first local miss - the number it
// asks the responder to skip), the two peers' link sequences differ: the
// requestor descended through a block the responder lacks. (A block the
// responder lacks that has no traversed links beneath it leaves the sequences
// aligned; the code handles that case correctly and it is checked like any other.)
func SkipCountDesync(d *DAG, sel ipld.Node, sp Split) bool {
	n := 0
	missed := false
	Ref(d.Root, sel, func(path string, c cid.Cid) ([]byte, bool) {
		if missed {
			return nil, false
		}
		if !sp.Rq[c] {
			missed = true
			return nil, false
		}
		n++
		return d.Blocks[c], true
	}, 0)
	return missed && LinkSeqDiverge(d, sel, sp, n)
}

// RefLoadsPathTwice reports whether the reference traversal loads some link path more than once.
func RefLoadsPathTwice(d *DAG, sel ipld.Node, sp Split) bool {
	ref := Ref(d.Root, sel, SplitResolver(d, sp), 0)
	seen := map[string]bool{}
	for _, l := range ref.Loads {
		if seen[l.Path] {
			return true
		}
		seen[l.Path] = true
	}
	return false
}

func checkSingleCanon(prop string, r *Req, d *DAG, sel ipld.Node, sp Split, finalStore map[cid.Cid][]byte) *Violation {
	if !r.Done() {
		return &Violation{Property: prop, Rule: "R0", Signature: "not-terminated", Detail: "request channels did not close in a fault-free run"}
	}
	ref := Ref(d.Root, sel, SplitResolver(d, sp), 0)
	var refMiss []string
	for _, l := range ref.Loads {
		if !l.Found {
			refMiss = append(refMiss, shortCid(l.Cid)+"@"+l.Path)
		}
	}
	sort.Strings(refMiss)
	miss, other := missingOf(r.Errs)
	rootInRs := sp.Rs[d.Root.Cid]
	if !rootInRs {
		// envelope: content-not-found legitimately ends the exchange early
		if i, ok := visitsEqual(r.Visits, ref.Visits); !ok && i < len(r.Visits) && (i >= len(ref.Visits) || r.Visits[i] != ref.Visits[i]) {
			return &Violation{Property: prop, Rule: "R1", Signature: "not-a-prefix", Detail: fmt.Sprintf("root not on responder; delivered[%d]=%v is not in the reference at that position", i, r.Visits[i])}
		}
		return nil
	}
	if i, ok := visitsEqual(r.Visits, ref.Visits); !ok {
		got, want := "<end>", "<end>"
		if i < len(r.Visits) {
			got = r.Visits[i].String()
		}
		if i < len(ref.Visits) {
			want = ref.Visits[i].String()
		}
		sig := "diverge"
		if i >= len(r.Visits) {
			sig = "truncated"
		} else if i >= len(ref.Visits) {
			sig = "extra"
		}
		return &Violation{Property: prop, Rule: "R1", Signature: sig, Detail: fmt.Sprintf("visit %d: got %s want %s (got %d visits, want %d); errors miss=%v other=%v", i, got, want, len(r.Visits), len(ref.Visits), miss, other)}
	}
	if len(other) > 0 {
		return &Violation{Property: prop, Rule: "R2", Signature: "unexpected-error", Detail: fmt.Sprintf("errors %v", other)}
	}
	if strings.Join(miss, ",") != strings.Join(refMiss, ",") {
		return &Violation{Property: prop, Rule: "R2", Signature: "missing-set", Detail: fmt.Sprintf("missing-block errors %v, reference unresolved links %v", miss, refMiss)}
	}
	loaded := map[cid.Cid]bool{}
	for _, l := range ref.Loads {
		if l.Found {
			loaded[l.Cid] = true
			if !sp.Rq[l.Cid] && !isIdentity(l.Cid) {
				if _, ok := finalStore[l.Cid]; !ok {
					return &Violation{Property: prop, Rule: "R3", Signature: "not-stored", Detail: fmt.Sprintf("block %s came from the responder but is not in the requestor store", shortCid(l.Cid))}
				}
			}
		}
	}
	for c := range finalStore {
		if !sp.Rq[c] && !loaded[c] {
			return &Violation{Property: prop, Rule: "R3", Signature: "stored-unreached", Detail: fmt.Sprintf("block %s stored although the traversal never loads it", shortCid(c))}
		}
	}
	return nil
}

func (s *c02) Final(w *World) *Violation {
	return checkSingle(s.prop, s.req, s.dag, s.sel, s.split, s.a.Store.Snapshot())
}
