package sim

import (
	"context"
	"errors"
	"fmt"
	"regexp"
	"runtime"
	"strings"
	"time"

	"github.com/ipfs/go-cid"
	"github.com/ipld/go-ipld-prime/node/basicnode"
	"github.com/libp2p/go-libp2p/core/peer"

	"github.com/ipfs/go-graphsync"
	gsimpl "github.com/ipfs/go-graphsync/impl"
)

// c25: one stalled peer must not stop service to the others.
type c25 struct {
	b          *Node   // the responder under test
	s          *Node   // the stalled peer
	others     []*Node // X, Y
	sReqs      []*Req
	oReqs      []*Req
	oDags      []*DAG
	sHook      string // what the responder's request hook does for the stalled peer's requests: accept | ext
	sFromS     *Req   // requestor family: the stalled peer's own request to B (B serves it)
	sCancelAt  int    // ... and the step from which B's caller may cancel B's request to S
	sCancelled bool
	oHook      []string // per other-request: accept | ext | pause | reject | update
	descr      string
	actions    []*Event
	sActs      []string
	fired      map[string]bool
	memFull    bool
	requestor  bool // family 2: the node under test is a requestor whose sends to one responder stall
}

func newC25() Scenario          { return &c25{fired: map[string]bool{}} }
func newC25Requestor() Scenario { return &c25{fired: map[string]bool{}, requestor: true} }

func (s *c25) Name() string {
	if s.requestor {
		return "stalled-peer/requestor"
	}
	return "stalled-peer/responder"
}
func (s *c25) Property() string { return "C25" }

var extPayload = basicnode.NewString(strings.Repeat("x", 64))

func (s *c25) Build(w *World) {
	t := w.Tape
	drawProfile(w)
	NewFabric(w)
	w.Net.StalledPairs = map[string]bool{}
	w.Net.StalledDials = map[string]bool{}
	w.TrackLocks()
	w.MaxIdle = 20 * time.Second // far below the send timeout: the stall must not resolve itself
	if s.requestor {
		s.buildRequestor(w)
		return
	}
	// stated envelope: the stalled peer has fewer requests in flight (at most 3, one
	// of them late) than there are workers; worker exhaustion by one peer is what
	// MaxInProgressIncomingRequestsPerPeer is for
	workers := 4 + t.Draw(3)
	blk := 400 + t.Draw(800)
	s.memFull = t.Chance(700)
	opts := []gsimpl.Option{gsimpl.RejectAllRequestsByDefault(), gsimpl.MaxInProgressIncomingRequests(uint64(workers)), gsimpl.SendMessageTimeout(10 * time.Minute)}
	if s.memFull {
		// the stalled peer's allowance holds about two blocks
		opts = append(opts, gsimpl.MaxMemoryPerPeerResponder(uint64(2*blk+100)))
	}
	s.b = NewNode(w, "B", NodeCfg{GateReads: true, Opts: opts})
	s.s = NewNode(w, "S", NodeCfg{GateReads: true, GateCommits: true})
	w.Net.StalledPairs["B>S"] = true
	// in a third of the runs (tape digest) the stalled peer cannot even be dialled: the dial does not come back
	if t.Digest()%3 == 0 {
		w.Net.StalledDials["B>S"] = true
	}
	for _, nm := range []string{"X", "Y"} {
		s.others = append(s.others, NewNode(w, nm, NodeCfg{GateReads: true, GateCommits: true}))
	}
	// S: fewer requests in flight than there are workers
	nS := 1 + t.Draw(2)
	for i := 0; i < nS; i++ {
		d := GenDAG(t, GenCfg{MaxBlocks: 6 + t.Draw(6), MaxDepth: 2 + t.Draw(2), BlockPad: blk})
		for _, c := range d.Order {
			s.b.Store.Put(c, d.Blocks[c])
		}
		s.sReqs = append(s.sReqs, s.s.NewReq(fmt.Sprintf("s%d", i), s.b, d.Root, AllSelector(8)))
	}
	// what S does besides: more new requests, updates, cancels (each an event of its own)
	s.sActs = []string{}
	for _, a := range []string{"update", "cancel", "newreq", "bcancel", "bcancel2"} {
		if t.Chance(600) {
			s.sActs = append(s.sActs, a)
		}
	}
	sHook := []string{"accept", "ext"}[t.Draw(2)]
	s.sHook = sHook
	nO := 2 + t.Draw(4)
	for i := 0; i < nO; i++ {
		d := GenDAG(t, GenCfg{MaxBlocks: 2 + t.Draw(6), MaxDepth: 1 + t.Draw(3), BlockPad: 10 + i})
		s.oDags = append(s.oDags, d)
		for _, c := range d.Order {
			s.b.Store.Put(c, d.Blocks[c])
		}
		from := s.others[t.Draw(len(s.others))]
		s.oReqs = append(s.oReqs, from.NewReq(fmt.Sprintf("o%d", i), s.b, d.Root, AllSelector(8)))
		s.oHook = append(s.oHook, []string{"accept", "accept", "ext", "pause", "reject", "update"}[t.Draw(6)])
	}
	hookOf := map[graphsync.RequestID]string{}
	for i, r := range s.oReqs {
		hookOf[r.ID] = s.oHook[i]
	}
	ext := graphsync.ExtensionData{Name: "sim/ext", Data: extPayload}
	s.b.OnIncomingRequest = func(p peer.ID, r graphsync.RequestData, a graphsync.IncomingRequestHookActions) {
		h, other := hookOf[r.ID()]
		if !other {
			h = sHook
		}
		switch h {
		case "accept", "update":
			a.ValidateRequest()
		case "ext":
			a.ValidateRequest()
			a.SendExtensionData(ext)
		case "pause":
			a.ValidateRequest()
			a.PauseResponse()
		case "reject":
		}
	}
	s.b.OnRequestUpdated = func(p peer.ID, r graphsync.RequestData, u graphsync.RequestData, a graphsync.RequestUpdatedHookActions) {
		a.SendExtensionData(ext)
		a.UnpauseResponse()
	}
	s.descr = fmt.Sprintf("workers=%d block=%dB memFull=%v S:%d reqs hook=%s acts=%v others=%v", workers, blk, s.memFull, nS, sHook, s.sActs, s.oHook)
	w.AddProvider(s.events(w))
}

func (s *c25) buildRequestor(w *World) {
	t := w.Tape
	// B may also be serving the stalled peer (its allowance for S fills up) while it is S's requestor
	serving := t.Chance(500)
	blk := 400 + t.Draw(600)
	bcfg := NodeCfg{GateReads: true, GateCommits: true}
	if serving {
		bcfg.Opts = append(bcfg.Opts, gsimpl.MaxMemoryPerPeerResponder(uint64(2*blk+100)), gsimpl.SendMessageTimeout(10*time.Minute))
	}
	s.b = NewNode(w, "B", bcfg)
	s.s = NewNode(w, "S", NodeCfg{GateReads: true, GateCommits: true})
	w.Net.StalledPairs["B>S"] = true
	// in a third of the runs (tape digest) the stalled responder cannot even be dialled: the dial does not come back
	if w.Tape.Digest()%3 == 0 {
		w.Net.StalledDials["B>S"] = true
	}
	if serving {
		dS := GenDAG(t, GenCfg{MaxBlocks: 6 + t.Draw(6), MaxDepth: 2, BlockPad: blk})
		for _, c := range dS.Order {
			s.b.Store.Put(c, dS.Blocks[c])
		}
		s.sFromS = s.s.NewReq("sx", s.b, dS.Root, AllSelector(8))
		s.sCancelAt = 10 + t.Draw(60)
	}
	for _, nm := range []string{"X", "Y"} {
		s.others = append(s.others, NewNode(w, nm, NodeCfg{GateReads: true}))
	}
	d0 := GenDAG(t, GenCfg{MaxBlocks: 4 + t.Draw(6), MaxDepth: 2, BlockPad: 3})
	for _, c := range d0.Order {
		s.s.Store.Put(c, d0.Blocks[c])
	}
	s.sReqs = append(s.sReqs, s.b.NewReq("s0", s.s, d0.Root, AllSelector(8)))
	nO := 2 + t.Draw(4)
	for i := 0; i < nO; i++ {
		d := GenDAG(t, GenCfg{MaxBlocks: 2 + t.Draw(6), MaxDepth: 1 + t.Draw(3), BlockPad: 10 + i})
		s.oDags = append(s.oDags, d)
		to := s.others[t.Draw(len(s.others))]
		for _, c := range d.Order {
			to.Store.Put(c, d.Blocks[c])
		}
		s.oReqs = append(s.oReqs, s.b.NewReq(fmt.Sprintf("o%d", i), to, d.Root, AllSelector(8)))
		s.oHook = append(s.oHook, "accept")
	}
	s.descr = fmt.Sprintf("requestor B: sends to S stall; %d requests to X/Y; serving S=%v", nO, serving)
	w.AddProvider(s.events(w))
}

func (s *c25) events(w *World) func() []*Event {
	return func() []*Event {
		var evs []*Event
		for _, r := range append(append([]*Req{}, s.sReqs...), s.oReqs...) {
			if !r.Issued {
				evs = append(evs, r.IssueEvent())
			}
		}
		if s.requestor {
			if s.sFromS != nil {
				if !s.sFromS.Issued {
					evs = append(evs, s.sFromS.IssueEvent())
				}
				// B's caller gives up on its request to S: the cancel has to go out on the stalled connection
				if !s.sCancelled && s.sReqs[0].Returned && w.Step >= s.sCancelAt {
					evs = append(evs, Inject("api", "act|B|s0|ctxcancel", func(string) {
						s.sCancelled = true
						w.Probe("c25-requestor-cancels-request-to-stalled-peer")
						s.sReqs[0].Cancel()
					}))
				}
			}
			return evs
		}
		// the stalled peer keeps talking
		for _, a := range s.sActs {
			a := a
			if s.fired[a] || !s.sReqs[0].Returned {
				continue
			}
			evs = append(evs, Inject("api", "act|S|"+a, func(string) {
				s.fired[a] = true
				w.Probe("c25-S-" + a)
				switch a {
				case "update":
					go func() {
						_ = s.s.GS.SendUpdate(context.Background(), s.sReqs[0].ID, graphsync.ExtensionData{Name: "sim/u", Data: extPayload})
					}()
				case "cancel":
					s.sReqs[len(s.sReqs)-1].Cancel()
				case "bcancel", "bcancel2":
					// the responder's operator cancels the stalled peer's response (possibly twice, or on top of the peer's own cancel)
					id := s.sReqs[len(s.sReqs)-1].ID
					go func() { _ = s.b.GS.Cancel(context.Background(), id) }()
				case "newreq":
					d := s.oDags[0]
					r := s.s.NewReq("s-late", s.b, d.Root, AllSelector(8))
					s.sReqs = append(s.sReqs, r)
				}
			}))
		}
		// requestors of paused responses send an update, which the responder's hook answers by unpausing
		for i, r := range s.oReqs {
			i, r := i, r
			if s.oHook[i] == "pause" || s.oHook[i] == "update" {
				key := "upd-" + r.Label
				if s.fired[key] || !r.Returned || r.Done() {
					continue
				}
				// only once the requestor has been told that the response is paused
				// (or, for plain updates, acknowledged): an update for a request the
				// responder does not know yet is dropped
				seen := false
				r.Node.mu.Lock()
				for _, h := range r.Node.Responses {
					if h.Req == r.ID && (h.Status == graphsync.RequestPaused || s.oHook[i] == "update") {
						seen = true
					}
				}
				r.Node.mu.Unlock()
				if !seen {
					continue
				}
				evs = append(evs, Inject("api", "act|"+r.Node.Name+"|"+r.Label+"|update", func(string) {
					s.fired[key] = true
					go func() {
						_ = r.Node.GS.SendUpdate(context.Background(), r.ID, graphsync.ExtensionData{Name: "sim/u", Data: extPayload})
					}()
				}))
			}
		}
		return evs
	}
}

func (s *c25) Describe(w *World) string { return s.descr }

func (s *c25) Done(w *World) bool {
	for _, r := range s.oReqs {
		if !r.Done() {
			return false
		}
	}
	return true
}

// Heal: nothing - the stalled peer stays stalled.
func (s *c25) Heal(w *World)                 {}
func (s *c25) Invariant(w *World) *Violation { return nil }

var bubbleRe = regexp.MustCompile(`synctest bubble (\d+)`)

var frameRe = regexp.MustCompile(`(?m)^github\.com/ipfs/go-graphsync/(\S+)\(`)

// blockedSite finds the goroutine running the given function and names the
// go-graphsync frames above it (innermost first), for finding signatures.
func blockedSite(root string) string {
	// goroutines stalled for good in earlier runs of this process are still there: take the whole
	// dump (however large) and look only at the goroutines of the bubble this run lives in
	me := make([]byte, 256)
	me = me[:runtime.Stack(me, false)]
	bubble := ""
	if m := bubbleRe.FindSubmatch(me); m != nil {
		bubble = "synctest bubble " + string(m[1])
	}
	buf := make([]byte, 8<<20)
	n := runtime.Stack(buf, true)
	for n == len(buf) && len(buf) < 1<<30 {
		buf = make([]byte, 2*len(buf))
		n = runtime.Stack(buf, true)
	}
	best := "not-found"
	// every node has such a loop; the interesting one is the one that is not idle
	for _, g := range strings.Split(string(buf[:n]), "\n\n") {
		if bubble != "" {
			head := g
			if i := strings.Index(g, "\n"); i >= 0 {
				head = g[:i]
			}
			if !strings.Contains(head, bubble+"]") && !strings.Contains(head, bubble+",") {
				continue
			}
		}
		if !strings.Contains(g, root) || !strings.Contains(g, "synctest bubble") {
			continue
		}
		var fns []string
		for _, m := range frameRe.FindAllStringSubmatch(g, -1) {
			f := m[1]
			if i := strings.LastIndex(f, "."); i >= 0 {
				f = f[i+1:]
			}
			fns = append(fns, f)
			if strings.Contains(m[1], root) {
				break
			}
		}
		if len(fns) > 6 {
			fns = fns[len(fns)-6:]
		}
		// outermost first
		for i, j := 0, len(fns)-1; i < j; i, j = i+1, j-1 {
			fns[i], fns[j] = fns[j], fns[i]
		}
		site := strings.Join(fns, ">")
		if len(fns) > 1 {
			return site
		}
		best = site
	}
	return best
}

func (s *c25) Final(w *World) *Violation {
	for i, r := range s.oReqs {
		if !r.Issued {
			continue
		}
		if !r.Done() {
			site := ""
			if s.requestor {
				site = blockedSite("requestmanager.(*RequestManager).run")
			} else {
				site = blockedSite("responsemanager.(*ResponseManager).run")
			}
			sig := "other-peer-starved"
			if strings.Contains(site, ">") {
				// the loop is inside a message handler, not waiting for the next message
				sig += ":loop-blocked:" + site
				if s.sHook == "ext" {
					// the input class of the recorded finding: the loop reserves memory for
					// extension data the request hook sends with the stalled peer's new request
					sig += ":request-hook-sends-extension-to-stalled-peer"
				}
			} else {
				sig += ":loop-idle"
			}
			return &Violation{Property: "C25", Rule: "R1", Signature: sig, Detail: fmt.Sprintf("%s (hook %s) from %s did not complete while peer S was stalled; actor loop: %s; %s", r.Label, s.oHook[i], r.Node.Name, site, s.descr)}
		}
		if s.oHook[i] == "reject" {
			if len(r.Errs) == 0 {
				return &Violation{Property: "C25", Rule: "R1", Signature: "reject-not-reported", Detail: r.Label + " was rejected but ended without error"}
			}
			continue
		}
		d := s.oDags[i]
		ref := Ref(d.Root, AllSelector(8), func(path string, c cid.Cid) ([]byte, bool) { b, ok := d.Blocks[c]; return b, ok }, 0)
		if k, ok := visitsEqual(r.Visits, ref.Visits); !ok || len(r.Errs) > 0 {
			return &Violation{Property: "C25", Rule: "R1", Signature: "other-peer-incomplete", Detail: fmt.Sprintf("%s differs from the reference at visit %d (got %d want %d) errors %v", r.Label, k, len(r.Visits), len(ref.Visits), errStrings(r.Errs))}
		}
	}
	return nil
}

var _ = errors.New
