package sim

import (
	"context"
	"crypto/sha256"
	"errors"
	"fmt"
	"sort"
	"strings"

	"github.com/ipfs/go-cid"
	"github.com/ipld/go-ipld-prime"
	cidlink "github.com/ipld/go-ipld-prime/linking/cid"
	"github.com/libp2p/go-libp2p/core/peer"

	"github.com/ipfs/go-graphsync"
	"github.com/ipfs/go-graphsync/cidset"
)

// c20: several concurrent requests between one requestor and one responder
// over overlapping DAGs, default dedup scope.
type c20 struct {
	dag   *DAG
	split Split
	a, b  *Node
	reqs  []*Req
	sels  []ipld.Node
	descs []string
	inKey map[graphsync.RequestID]bool // requests in the named deduplication scope (they use the alternate store)
	alt   *SimStore                    // the requestor's alternate store (persistence option "alt")
	altRq map[cid.Cid]bool             // what it holds initially
	// one sibling may be disturbed (its caller cancels it, or pauses it for good) while the
	// others run: it is left out of the comparison, the others must not notice
	victim   int // -1: none
	how      string
	at       int
	acted    bool
	pausedOK bool
	heldAt   int64 // the responder holds the disturbed sibling's response from this block on (0: it does not)
	held     bool
}

func newC20() Scenario { return &c20{} }

func (s *c20) Name() string     { return "concurrent-requests/overlapping" }
func (s *c20) Property() string { return "C20" }

func (s *c20) Build(w *World) {
	t := w.Tape
	drawProfile(w)
	s.dag = GenDAG(t, GenCfg{MaxBlocks: 4 + t.Draw(16), MaxDepth: 2 + t.Draw(4), BlockPad: []int{0, 0, 40}[t.Draw(3)], Share: []int{100, 300, 500}[t.Draw(3)], Empty: []int{0, 0, 80}[t.Draw(3)], Alias: []int{0, 0, 100}[t.Draw(3)]})
	s.split = GenSplit(t, s.dag)
	cfg := NodeCfg{GateReads: true, GateCommits: true}
	s.a = NewNode(w, "A", cfg)
	s.b = NewNode(w, "B", cfg)
	populate(s.a, s.dag, s.split.Rq)
	populate(s.b, s.dag, s.split.Rs)
	var roots []cid.Cid
	for _, c := range s.dag.Order {
		if c.Prefix().Codec == 0x71 {
			roots = append(roots, c)
		}
	}
	n := 2 + t.Draw(3)
	// some runs put (most of) the requests into one named deduplication scope
	keyed := t.Chance(300)
	if keyed {
		// the named scope is a persistence option: its requests read and write another store
		s.alt = NewSimStore(w, "A2")
		s.altRq = map[cid.Cid]bool{}
		altPm := []int{0, 200, 500}[t.Draw(3)]
		for _, c := range s.dag.Order {
			if t.Chance(altPm) {
				s.altRq[c] = true
				s.alt.Put(c, s.dag.Blocks[c])
			}
		}
		if err := s.a.GS.RegisterPersistenceOption("alt", s.alt.LinkSystem()); err != nil {
			panic(err)
		}
		s.a.OnOutgoingRequest = func(p peer.ID, r graphsync.RequestData, a graphsync.OutgoingRequestHookActions) {
			if s.inKey[r.ID()] {
				a.UsePersistenceOption("alt")
			}
		}
	}
	for i := 0; i < n; i++ {
		root := s.dag.Root.Cid
		if t.Chance(500) {
			root = roots[t.Draw(len(roots))]
		}
		sel, desc := GenSelector(t, 8)
		if t.Chance(600) {
			sel, desc = AllSelector(int64(2+t.Draw(8))), "all"
		}
		s.sels = append(s.sels, sel)
		s.descs = append(s.descs, fmt.Sprintf("%s@%s", desc, shortCid(root)))
		var exts []graphsync.ExtensionData
		inKey := keyed && t.Chance(750)
		if inKey {
			s.descs[len(s.descs)-1] += "+alt"
			if t.Chance(500) {
				// ... and tells the responder which blocks that store already holds
				set := cid.NewSet()
				for _, c := range s.dag.Order {
					if s.altRq[c] && t.Chance(600) {
						set.Add(c)
					}
				}
				if set.Len() > 0 {
					exts = append(exts, graphsync.ExtensionData{Name: graphsync.ExtensionDoNotSendCIDs, Data: cidset.EncodeCidSet(set)})
					s.descs[len(s.descs)-1] += fmt.Sprintf("+dnsc%d", set.Len())
				}
			}
		}
		s.reqs = append(s.reqs, s.a.NewReq(fmt.Sprintf("r%d", i), s.b, cidlink.Link{Cid: root}, sel, exts...))
		if s.inKey == nil {
			s.inKey = map[graphsync.RequestID]bool{}
		}
		s.inKey[s.reqs[len(s.reqs)-1].ID] = inKey
	}
	s.victim = -1
	if t.Chance(400) {
		s.victim = t.Draw(n)
		s.how = []string{"cancel", "pause", "refuse", "refuse", "held-cancel", "held-cancel"}[t.Draw(6)]
		s.at = t.Draw(60)
	}
	if s.how == "held-cancel" {
		// the responder's operator holds that sibling's response (a block hook pauses it at a drawn block); its
		// caller cancels it while it is held
		s.how = "cancel"
		vid := s.reqs[s.victim].ID
		k := int64(1 + t.Draw(5))
		s.heldAt = k
		s.b.OnOutgoingBlock = func(p peer.ID, r graphsync.RequestData, b graphsync.BlockData, a graphsync.OutgoingBlockHookActions) {
			if r.ID() == vid && b.Index() >= k && !s.held {
				s.held = true
				w.Probe("c20-sibling-held-at-responder")
				a.PauseResponse()
			}
		}
	}
	if s.how == "refuse" {
		// the caller's response hook refuses that sibling's responses (an application-level rejection):
		// whatever else travels in the same message is none of its business
		vid := s.reqs[s.victim].ID
		s.acted = true
		s.a.OnIncomingResponse = func(p peer.ID, r graphsync.ResponseData, a graphsync.IncomingResponseHookActions) {
			if r.RequestID() == vid {
				w.Probe("c20-sibling-refused")
				a.TerminateWithError(errors.New("sim: the application refuses this response"))
			}
		}
	}
	w.AddProvider(func() []*Event {
		var evs []*Event
		for _, r := range s.reqs {
			if !r.Issued {
				evs = append(evs, r.IssueEvent())
			}
		}
		if s.victim >= 0 && !s.acted && s.how != "refuse" {
			r := s.reqs[s.victim]
			if r.Returned && !r.Done() && w.Step >= s.at && (s.heldAt == 0 || s.held) {
				evs = append(evs, Inject("api", "act|A|"+r.Label+"|"+s.how, func(string) {
					s.acted = true
					w.Probe("c20-sibling-" + s.how)
					w.Effect("act A %s %s", r.Label, s.how)
					if s.how == "cancel" {
						r.Cancel()
						return
					}
					go func() {
						err := s.a.GS.Pause(context.Background(), r.ID)
						w.Effect("act A %s pause returned %v", r.Label, err)
						s.pausedOK = err == nil
					}()
				}))
			}
		}
		return evs
	})
}

// NextPhase: a sibling paused for good is cancelled at the end so that the run can finish.
func (s *c20) NextPhase(w *World, phase int) bool {
	if phase > 1 || s.victim < 0 || s.reqs[s.victim].Done() {
		return false
	}
	r := s.reqs[s.victim]
	w.Sync(func() {
		w.Effect("heal: cancel %s", r.Label)
		s.acted = true
		r.Cancel()
	})
	return true
}

func (s *c20) Describe(w *World) string {
	d := ""
	if s.victim >= 0 {
		d = fmt.Sprintf(" disturbed=r%d:%s@%d held-at-block=%d", s.victim, s.how, s.at, s.heldAt)
	}
	return fmt.Sprintf("dag=%d split=%s reqs=%s%s", len(s.dag.Order), s.split.String(s.dag), strings.Join(s.descs, " | "), d)
}

func (s *c20) Done(w *World) bool {
	for i, r := range s.reqs {
		if i == s.victim && s.acted && s.how == "pause" {
			continue
		}
		if !r.Done() {
			return false
		}
	}
	return true
}
func (s *c20) Heal(w *World)                 { w.Net.Heal() }
func (s *c20) Invariant(w *World) *Violation { return nil }

// isSubsequence: every element of sub appears in seq in order.
func isSubsequence(sub, seq []Visit) (int, bool) {
	j := 0
	for i := range sub {
		for j < len(seq) && seq[j] != sub[i] {
			j++
		}
		if j == len(seq) {
			return i, false
		}
		j++
	}
	return 0, true
}

func (s *c20) Final(w *World) *Violation {
	// R3a: whatever the requestor stored is the block its CID names
	commits := append([]CommitRec(nil), s.a.Store.Commits...)
	if s.alt != nil {
		commits = append(commits, s.alt.Commits...)
	}
	for _, c := range commits {
		if want, ok := s.dag.Blocks[c.Cid]; !ok || sha256.Sum256(want) != c.Hash {
			return &Violation{Property: "C20", Rule: "R3", Signature: "stored-wrong-bytes", Detail: fmt.Sprintf("block stored under %s at step %d is not the block of that CID", shortCid(c.Cid), c.Step)}
		}
	}
	for i, r := range s.reqs {
		if i == s.victim && s.acted {
			continue // the disturbed sibling itself is not compared
		}
		if !r.Done() {
			return &Violation{Property: "C20", Rule: "R0", Signature: "not-terminated", Detail: r.Label + " did not finish in a fault-free run"}
		}
		sub := &DAG{Root: r.Root, Blocks: s.dag.Blocks, Order: s.dag.Order, Kids: s.dag.Kids}
		// the store this request works against
		split, store := s.split, s.a.Store
		if s.inKey[r.ID] {
			split, store = Split{Rq: s.altRq, Rs: s.split.Rs}, s.alt
		}
		csel, _ := CanonicalSelector(s.sels[i])
		if !split.Rs[r.Root.Cid] {
			continue // content-not-found envelope, as in C02
		}
		// (a sibling's stored blocks can let this request descend where it could not alone: the
		// recorded C02 input classes are looked for over everything either peer holds, too)
		both := Split{Rq: map[cid.Cid]bool{}, Rs: split.Rs}
		for c := range split.Rq {
			both.Rq[c] = true
		}
		for c := range split.Rs {
			both.Rq[c] = true
		}
		// (with siblings storing into the same store the offline prefix of this request can be anything
		// up to its whole traversal: the skip-count class is taken as soon as the two peers' link
		// sequences differ anywhere)
		if SkipCountDesync(sub, csel, split) || LinkSeqDiverge(sub, csel, both, 1<<30) || RefLoadsPathTwice(sub, csel, split) || RefLoadsPathTwice(sub, csel, both) {
			w.Probe("c20-skip-known-c02-input-class")
			continue
		}
		solo := Ref(sub.Root, csel, SplitResolver(sub, split), 0)
		// the most a request can legitimately see: every block either peer holds
		all := Ref(sub.Root, csel, func(path string, c cid.Cid) ([]byte, bool) {
			if split.Rq[c] || split.Rs[c] {
				return s.dag.Blocks[c], true
			}
			return nil, false
		}, 0)
		if k, ok := isSubsequence(solo.Visits, r.Visits); !ok {
			miss, other := missingOf(r.Errs)
			return &Violation{Property: "C20", Rule: "R1", Signature: "lost-node" + s.lossTag(w, r), Detail: fmt.Sprintf("%s (%s): node %s, delivered when the request runs alone, is missing (got %d visits, solo %d); errors miss=%v other=%v", r.Label, s.descs[i], solo.Visits[k], len(r.Visits), len(solo.Visits), miss, other)}
		}
		if k, ok := isSubsequence(r.Visits, all.Visits); !ok {
			return &Violation{Property: "C20", Rule: "R1", Signature: "unjustified-node", Detail: fmt.Sprintf("%s: delivered node %s is not part of any traversal over the two stores", r.Label, r.Visits[k])}
		}
		var soloMiss []string
		for _, l := range solo.Loads {
			if !l.Found {
				soloMiss = append(soloMiss, shortCid(l.Cid)+"@"+l.Path)
			}
		}
		sort.Strings(soloMiss)
		miss, other := missingOf(r.Errs)
		if len(other) > 0 {
			return &Violation{Property: "C20", Rule: "R2", Signature: "unexpected-error" + s.lossTag(w, r), Detail: fmt.Sprintf("%s: errors %v", r.Label, other)}
		}
		allowed := map[string]bool{}
		for _, m := range soloMiss {
			allowed[m] = true
		}
		// a block a sibling request stored lets this one descend further; a link it then
		// fails to resolve is explainable if the requestor did not hold the block
		// initially and the responder lacks it or cannot reach that path itself
		var reachRecs []struct {
			path  string
			reach bool
		}
		Ref(sub.Root, csel, func(path string, c cid.Cid) ([]byte, bool) {
			parentReach := true
			best := -1
			for _, rr := range reachRecs {
				if rr.path == "" && path != "" || (rr.path != "" && strings.HasPrefix(path, rr.path+"/")) {
					if len(rr.path) > best {
						best = len(rr.path)
						parentReach = rr.reach
					}
				}
			}
			respHas := parentReach && split.Rs[c]
			if !split.Rq[c] && !respHas {
				allowed[shortCid(c)+"@"+path] = true
			}
			if split.Rq[c] || split.Rs[c] {
				reachRecs = append(reachRecs, struct {
					path  string
					reach bool
				}{path, respHas})
				return s.dag.Blocks[c], true
			}
			return nil, false
		}, 0)
		for _, m := range miss {
			if !allowed[m] {
				return &Violation{Property: "C20", Rule: "R2", Signature: "extra-missing-error" + s.lossTag(w, r), Detail: fmt.Sprintf("%s: missing-block error %s that the request alone would not get (solo unresolved: %v)", r.Label, m, soloMiss)}
			}
		}
		// stored: everything the solo run obtains from the responder
		for _, l := range solo.Loads {
			if l.Found && !split.Rq[l.Cid] && !store.Has(l.Cid) {
				return &Violation{Property: "C20", Rule: "R3", Signature: "not-stored", Detail: fmt.Sprintf("%s: block %s not in the requestor store", r.Label, shortCid(l.Cid))}
			}
		}
	}
	return nil
}

// lossTag: discriminates the recorded cross-request dedup finding: the block
// the losing request misses was carried on the wire only for a sibling request.
func (s *c20) lossTag(w *World, r *Req) string {
	miss, _ := missingOf(r.Errs)
	if len(miss) == 0 {
		return ""
	}
	wire := w.Net.WireFor("B", "A")
	own := ResponderOutput(wire, r.ID)
	// the message in which each request's terminal status left the responder
	term := map[graphsync.RequestID]int{}
	for mi, wm := range wire {
		if wm.Err != nil {
			continue
		}
		for _, resp := range wm.Msg.Responses() {
			if _, ok := term[resp.RequestID()]; !ok && resp.Status().IsTerminal() {
				term[resp.RequestID()] = mi
			}
		}
	}
	// (by full CID: two blocks with the same bytes under different codecs share the short form)
	var missCids []cid.Cid
	for _, e := range r.Errs {
		if m, ok := e.(graphsync.RemoteMissingBlockErr); ok {
			if cl, ok := m.Link.(cidlink.Link); ok {
				missCids = append(missCids, cl.Cid)
			}
		}
	}
	for _, mc := range missCids {
		for _, e := range own.Entries {
			if !e.Cid.Equals(mc) || e.Action != graphsync.LinkActionPresent || e.HasBlock {
				continue
			}
			// was a sibling of the same scope that had been sent the block still in progress at the responder?
			for _, o := range s.reqs {
				if o == r || s.inKey[o.ID] != s.inKey[r.ID] {
					continue
				}
				// (a sibling its caller cancelled gets no terminal status: it is over at the responder once the
				// responder has reported the cancel, which is compared with the step at which this request's
				// traversal reached the link)
				goneAt := 1 << 30
				for _, cv := range s.b.Cancelled {
					if cv.Req == o.ID && cv.Step < goneAt {
						goneAt = cv.Step
					}
				}
				reached := -1
				for _, h := range s.b.OutBlocks {
					if h.Req == r.ID && h.Index == int64(e.Index) {
						reached = h.Step
					}
				}
				for _, x := range ResponderOutput(wire, o.ID).Entries {
					if x.Cid == e.Cid && x.Action == graphsync.LinkActionPresent && x.Msg <= e.Msg {
						if t, done := term[o.ID]; (!done || t >= e.Msg) && !(reached >= 0 && goneAt < reached) {
							return ":present-not-sent-to-this-request"
						}
					}
				}
			}
			// nobody was: the responder withheld a block no request in progress accounts for
			return ":withheld-with-no-holder-in-progress"
		}
	}
	return ""
}
