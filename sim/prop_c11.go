package sim

import (
	"bytes"
	"fmt"
	"io"
	"math"
	"strings"

	blocks "github.com/ipfs/go-block-format"
	"github.com/ipfs/go-cid"
	"github.com/ipld/go-ipld-prime"
	"github.com/ipld/go-ipld-prime/datamodel"
	cidlink "github.com/ipld/go-ipld-prime/linking/cid"
	"github.com/ipld/go-ipld-prime/node/basicnode"
	mh "github.com/multiformats/go-multihash"

	"github.com/ipfs/go-graphsync"
	"github.com/ipfs/go-graphsync/cidset"
	"github.com/ipfs/go-graphsync/dedupkey"
	"github.com/ipfs/go-graphsync/donotsendfirstblocks"
	gsmsg "github.com/ipfs/go-graphsync/message"
	gsmsgv2 "github.com/ipfs/go-graphsync/message/v2"
)

// genExtNode draws an extension payload: scalars, null, nested maps and lists, bytes, links.
func genExtNode(t *Tape, depth int) datamodel.Node {
	k := t.Draw(9)
	if depth >= 3 && k >= 6 {
		k = t.Draw(6)
	}
	switch k {
	case 0:
		return basicnode.NewString(strings.Repeat("s", t.Draw(40)))
	case 1:
		return basicnode.NewInt(int64(t.Draw(1000)) - 500)
	case 2:
		return basicnode.NewBool(t.Draw(2) == 1)
	case 3:
		return datamodel.Null
	case 4:
		return basicnode.NewBytes(bytes.Repeat([]byte{byte(t.Draw(256))}, t.Draw(300)))
	case 5:
		return basicnode.NewLink(cidlink.Link{Cid: (mustCid(fmt.Sprintf("ext-link-%d", t.Draw(5))))})
	case 6, 7:
		nb := basicnode.Prototype.Map.NewBuilder()
		n := t.Draw(4)
		ma, _ := nb.BeginMap(int64(n))
		for i := 0; i < n; i++ {
			_ = ma.AssembleKey().AssignString(fmt.Sprintf("k%d", i))
			_ = ma.AssembleValue().AssignNode(genExtNode(t, depth+1))
		}
		_ = ma.Finish()
		return nb.Build()
	default:
		nb := basicnode.Prototype.List.NewBuilder()
		n := t.Draw(4)
		la, _ := nb.BeginList(int64(n))
		for i := 0; i < n; i++ {
			_ = la.AssembleValue().AssignNode(genExtNode(t, depth+1))
		}
		_ = la.Finish()
		return nb.Build()
	}
}

func genExts(t *Tape) []graphsync.ExtensionData {
	var out []graphsync.ExtensionData
	n := t.Draw(4)
	for i := 0; i < n; i++ {
		e := graphsync.ExtensionData{Name: graphsync.ExtensionName(fmt.Sprintf("sim/ext-%d", i))}
		if !t.Chance(150) { // nil payload now and then
			e.Data = genExtNode(t, 0)
		}
		out = append(out, e)
	}
	return out
}

func genBlock(t *Tape, i int) blocks.Block {
	data := []byte(fmt.Sprintf("c11-block-%d-%s", i, strings.Repeat("z", t.Draw(200))))
	var p cid.Prefix
	switch t.Draw(5) {
	case 0:
		p = cid.Prefix{Version: 0, Codec: 0x70, MhType: mh.SHA2_256, MhLength: 32}
	case 1:
		p = cid.Prefix{Version: 1, Codec: 0x55, MhType: mh.IDENTITY, MhLength: -1}
		data = data[:12]
	case 2:
		p = cid.Prefix{Version: 1, Codec: 0x71, MhType: mh.SHA2_256, MhLength: 32}
	case 3:
		p = cid.Prefix{Version: 1, Codec: 0x55, MhType: mh.SHA2_512, MhLength: 64}
	default:
		p = cid.Prefix{Version: 1, Codec: 0x55, MhType: mh.SHA2_256, MhLength: 32}
	}
	c, err := p.Sum(data)
	if err != nil {
		panic(err)
	}
	b, _ := blocks.NewBlockWithCid(data, c)
	return b
}

var allStatuses = []graphsync.ResponseStatusCode{graphsync.RequestAcknowledged, graphsync.AdditionalPeers, graphsync.NotEnoughGas, graphsync.OtherProtocol, graphsync.PartialResponse, graphsync.RequestPaused, graphsync.RequestCompletedFull, graphsync.RequestCompletedPartial, graphsync.RequestRejected, graphsync.RequestFailedBusy, graphsync.RequestFailedUnknown, graphsync.RequestFailedLegal, graphsync.RequestFailedContentNotFound, graphsync.RequestCancelled}
var allActions = []graphsync.LinkAction{graphsync.LinkActionPresent, graphsync.LinkActionDuplicateNotSent, graphsync.LinkActionMissing, graphsync.LinkActionDuplicateDAGSkipped}

// GenWellFormedMessage draws a message expressible in the v2 schema.
func GenWellFormedMessage(t *Tape, tag string) gsmsg.GraphSyncMessage {
	reqs := map[graphsync.RequestID]gsmsg.GraphSyncRequest{}
	resps := map[graphsync.RequestID]gsmsg.GraphSyncResponse{}
	blks := map[cid.Cid]blocks.Block{}
	nreq := t.Draw(4)
	for i := 0; i < nreq; i++ {
		id := ReqID(fmt.Sprintf("%s-rq-%d", tag, i))
		switch t.Draw(3) {
		case 0:
			reqs[id] = gsmsg.NewCancelRequest(id)
		case 1:
			reqs[id] = gsmsg.NewUpdateRequest(id, genExts(t)...)
		default:
			prio := []int32{0, 1, -1, math.MaxInt32, math.MinInt32, 42}[t.Draw(6)]
			sel, _ := GenSelector(t, 8)
			reqs[id] = gsmsg.NewRequest(id, mustCid(fmt.Sprintf("root-%d", t.Draw(4))), sel, graphsync.Priority(prio), genExts(t)...)
		}
	}
	nresp := t.Draw(4)
	for i := 0; i < nresp; i++ {
		id := ReqID(fmt.Sprintf("%s-rs-%d", tag, i))
		var md []gsmsg.GraphSyncLinkMetadatum
		nmd := t.Draw(5)
		for k := 0; k < nmd; k++ {
			md = append(md, gsmsg.GraphSyncLinkMetadatum{Link: mustCid(fmt.Sprintf("md-%d", t.Draw(6))), Action: allActions[t.Draw(len(allActions))]})
		}
		resps[id] = gsmsg.NewResponse(id, allStatuses[t.Draw(len(allStatuses))], md, genExts(t)...)
	}
	nblk := t.Draw(4)
	for i := 0; i < nblk; i++ {
		b := genBlock(t, i)
		blks[b.Cid()] = b
	}
	return gsmsg.NewMessage(reqs, resps, blks)
}

func extsEqual(a, b gsmsg.MessagePartWithExtensions) string {
	an, bn := extNames(a.ExtensionNames()), extNames(b.ExtensionNames())
	if fmt.Sprint(an) != fmt.Sprint(bn) {
		return fmt.Sprintf("extension names %v vs %v", an, bn)
	}
	for _, n := range an {
		x, _ := a.Extension(graphsync.ExtensionName(n))
		y, _ := b.Extension(graphsync.ExtensionName(n))
		if (x == nil) != (y == nil) {
			// a nil payload travels as null
			if !((x == nil && y != nil && y.IsNull()) || (y == nil && x != nil && x.IsNull())) {
				return fmt.Sprintf("extension %s: nil-ness differs", n)
			}
			continue
		}
		if x != nil && !ipld.DeepEqual(x, y) {
			return fmt.Sprintf("extension %s payload differs", n)
		}
	}
	return ""
}

// MessagesEquivalent compares a sent and a decoded message field by field.
func MessagesEquivalent(a, b gsmsg.GraphSyncMessage) string {
	ra, rb := map[graphsync.RequestID]gsmsg.GraphSyncRequest{}, map[graphsync.RequestID]gsmsg.GraphSyncRequest{}
	for _, r := range a.Requests() {
		ra[r.ID()] = r
	}
	for _, r := range b.Requests() {
		rb[r.ID()] = r
	}
	if len(ra) != len(rb) {
		return fmt.Sprintf("%d requests vs %d", len(ra), len(rb))
	}
	for id, x := range ra {
		y, ok := rb[id]
		if !ok {
			return "request " + shortReq(id) + " missing"
		}
		if x.Type() != y.Type() {
			return fmt.Sprintf("request %s type %s vs %s", shortReq(id), x.Type(), y.Type())
		}
		if x.Type() == graphsync.RequestTypeNew {
			if !x.Root().Equals(y.Root()) {
				return "request root differs"
			}
			if x.Priority() != y.Priority() {
				return fmt.Sprintf("request priority %d vs %d", x.Priority(), y.Priority())
			}
			cx, _ := CanonicalSelector(x.Selector())
			if y.Selector() == nil || !ipld.DeepEqual(cx, y.Selector()) {
				return "request selector differs"
			}
		}
		if d := extsEqual(x, y); d != "" {
			return "request " + d
		}
	}
	sa, sb := map[graphsync.RequestID]gsmsg.GraphSyncResponse{}, map[graphsync.RequestID]gsmsg.GraphSyncResponse{}
	for _, r := range a.Responses() {
		sa[r.RequestID()] = r
	}
	for _, r := range b.Responses() {
		sb[r.RequestID()] = r
	}
	if len(sa) != len(sb) {
		return fmt.Sprintf("%d responses vs %d", len(sa), len(sb))
	}
	for id, x := range sa {
		y, ok := sb[id]
		if !ok {
			return "response " + shortReq(id) + " missing"
		}
		if x.Status() != y.Status() {
			return fmt.Sprintf("response status %d vs %d", x.Status(), y.Status())
		}
		mx, my := ResponseMetadata(x), ResponseMetadata(y)
		if len(mx) != len(my) {
			return fmt.Sprintf("metadata length %d vs %d", len(mx), len(my))
		}
		for i := range mx {
			if !mx[i].Cid.Equals(my[i].Cid) || mx[i].Action != my[i].Action {
				return fmt.Sprintf("metadata entry %d differs", i)
			}
		}
		if d := extsEqual(x, y); d != "" {
			return "response " + d
		}
	}
	ba, bb := map[cid.Cid][]byte{}, map[cid.Cid][]byte{}
	for _, x := range a.Blocks() {
		ba[x.Cid()] = x.RawData()
	}
	for _, x := range b.Blocks() {
		bb[x.Cid()] = x.RawData()
	}
	if len(ba) != len(bb) {
		return fmt.Sprintf("%d blocks vs %d", len(ba), len(bb))
	}
	for c, d := range ba {
		if !bytes.Equal(bb[c], d) {
			return "block " + shortCid(c) + " differs or is missing"
		}
	}
	return ""
}

// c11: generated well-formed messages through the real codec and stream handling, fragmented delivery.
type c11 struct {
	p, r   *Scripted
	msgs   []gsmsg.GraphSyncMessage
	script *Script
	viol   *Violation
	descr  string
}

func newC11() Scenario { return &c11{} }

func (s *c11) Name() string     { return "wire-roundtrip" }
func (s *c11) Property() string { return "C11" }

func (s *c11) Build(w *World) {
	t := w.Tape
	drawProfile(w)
	NewFabric(w)
	w.Net.Fragment = true
	w.Prof.FaultPm = map[string]int{"deliver": []int{0, 300, 700}[t.Draw(3)]}
	w.Prof.FaultBudget = 1000
	s.p = NewScripted(w, "P")
	s.r = NewScripted(w, "R")
	s.script = NewScript(w, "P")
	n := 1 + t.Draw(6)
	for i := 0; i < n; i++ {
		m := GenWellFormedMessage(t, fmt.Sprintf("m%d", i))
		if m.Empty() {
			continue
		}
		s.msgs = append(s.msgs, m)
		s.script.Add(func() { s.p.Send(s.r.ID, m) })
	}
	// the handler's own stream interface: all messages written to one stream with ToNet,
	// read back one by one with FromNet from a reader that hands out drawn fragment sizes
	// the size dimension: in 1 run of 25 (from the tape's digest) the stream also carries one message with a block
	// that brings the frame close to, but not over, the receiver's frame limit (network.MessageSizeMax, 4 MiB)
	streamMsgs := s.msgs
	if d := t.Digest(); d%25 == 0 {
		size := []int{2<<20 - 200, 2 << 20, 3 << 20, 4<<20 - 4096}[(d>>8)%4]
		data := bytes.Repeat([]byte{byte(d >> 16)}, size)
		blk, _ := blocks.NewBlockWithCid(data, mustRawCid(data))
		id := ReqID("big")
		big := gsmsg.NewMessage(nil, map[graphsync.RequestID]gsmsg.GraphSyncResponse{id: gsmsg.NewResponse(id, graphsync.PartialResponse, []gsmsg.GraphSyncLinkMetadatum{{Link: blk.Cid(), Action: graphsync.LinkActionPresent}})}, map[cid.Cid]blocks.Block{blk.Cid(): blk})
		streamMsgs = append(append([]gsmsg.GraphSyncMessage(nil), s.msgs...), big)
		w.Probe("c11-frame-near-the-size-limit")
	}
	if len(streamMsgs) > 0 {
		saved := s.msgs
		s.msgs = streamMsgs
		defer func() { s.msgs = saved }()
		h := gsmsgv2.NewMessageHandler()
		var buf bytes.Buffer
		for i, m := range s.msgs {
			err := func() (err error) {
				defer func() {
					if r := recover(); r != nil {
						err = fmt.Errorf("ToNet panicked: %v", r)
					}
				}()
				return h.ToNet(s.r.ID, m, &buf)
			}()
			if err != nil {
				s.viol = &Violation{Property: "C11", Rule: "R1", Signature: "well-formed-message-unencodable", Detail: fmt.Sprintf("message %d (%d blocks): %v", i, len(m.Blocks()), err)}
			}
		}
		rd := &chunkReader{data: buf.Bytes(), sizes: []int{1 + t.Draw(7), 1 + t.Draw(64), 1 + t.Draw(4096)}}
		for i, m := range s.msgs {
			if s.viol != nil {
				break
			}
			got, err := h.FromNet(s.p.ID, rd)
			if err != nil {
				s.viol = &Violation{Property: "C11", Rule: "R2", Signature: "stream-of-messages:FromNet-error", Detail: fmt.Sprintf("message %d of %d written to one stream could not be read back with FromNet: %v", i+1, len(s.msgs), err)}
			} else if d := MessagesEquivalent(m, got); d != "" {
				s.viol = &Violation{Property: "C11", Rule: "R2", Signature: "stream-of-messages:differs:" + strings.Fields(d)[0], Detail: fmt.Sprintf("message %d of %d read back with FromNet: %s", i+1, len(s.msgs), d)}
			}
		}
		if s.viol == nil {
			if _, err := h.FromNet(s.p.ID, rd); err != io.EOF {
				s.viol = &Violation{Property: "C11", Rule: "R2", Signature: "stream-of-messages:no-clean-end", Detail: fmt.Sprintf("after the last message FromNet returned %v, want io.EOF", err)}
			}
		}
	}
	// the three extension codecs on generated values
	for i := 0; i < 5; i++ {
		v := []int64{0, 1, 2, 1 << 40, math.MaxInt64, int64(t.Draw(1 << 20)), int64(t.Draw(1 << 20))}[t.Draw(7)] // boundary values first
		if got, err := donotsendfirstblocks.DecodeDoNotSendFirstBlocks(roundTripNode(donotsendfirstblocks.EncodeDoNotSendFirstBlocks(v))); err != nil || got != v {
			s.viol = &Violation{Property: "C11", Rule: "R3", Signature: "do-not-send-first-blocks-codec", Detail: fmt.Sprintf("encoded %d, decoded %d (%v)", v, got, err)}
		}
		key := strings.Repeat("k", t.Draw(40)) + fmt.Sprint(i)
		enc, _ := dedupkey.EncodeDedupKey(key)
		if got, err := dedupkey.DecodeDedupKey(roundTripNode(enc)); err != nil || got != key {
			s.viol = &Violation{Property: "C11", Rule: "R3", Signature: "dedup-key-codec", Detail: fmt.Sprintf("encoded %q, decoded %q (%v)", key, got, err)}
		}
		set := cid.NewSet()
		for k := 0; k < t.Draw(6); k++ {
			set.Add(mustCid(fmt.Sprintf("set-%d", t.Draw(9))))
		}
		got, err := cidset.DecodeCidSet(roundTripNode(cidset.EncodeCidSet(set)))
		if err != nil || got.Len() != set.Len() {
			s.viol = &Violation{Property: "C11", Rule: "R3", Signature: "cid-set-codec", Detail: fmt.Sprintf("encoded %d cids, decoded %v (%v)", set.Len(), got, err)}
		} else {
			_ = set.ForEach(func(c cid.Cid) error {
				if !got.Has(c) {
					s.viol = &Violation{Property: "C11", Rule: "R3", Signature: "cid-set-codec", Detail: "cid lost"}
				}
				return nil
			})
		}
	}
	s.descr = fmt.Sprintf("%d messages", len(s.msgs))
}

// chunkReader hands out the data in fragments whose sizes cycle through a drawn list.
type chunkReader struct {
	data  []byte
	sizes []int
	n     int
}

func (c *chunkReader) Read(p []byte) (int, error) {
	if len(c.data) == 0 {
		return 0, io.EOF
	}
	k := c.sizes[c.n%len(c.sizes)]
	c.n++
	if k > len(p) {
		k = len(p)
	}
	if k > len(c.data) {
		k = len(c.data)
	}
	copy(p, c.data[:k])
	c.data = c.data[k:]
	return k, nil
}

// roundTripNode sends an extension payload through dag-cbor as the wire does.
func roundTripNode(n datamodel.Node) datamodel.Node {
	out, _ := CanonicalSelector(n)
	return out
}

func (s *c11) Describe(w *World) string      { return s.descr }
func (s *c11) Done(w *World) bool            { return s.script.Done() && w.Quiet() }
func (s *c11) Heal(w *World)                 {}
func (s *c11) Invariant(w *World) *Violation { return s.viol }

func (s *c11) Final(w *World) *Violation {
	if s.viol != nil {
		return s.viol
	}
	s.r.mu.Lock()
	got := s.r.Received
	nerr := s.r.RecvErrs
	s.r.mu.Unlock()
	if nerr > 0 {
		return &Violation{Property: "C11", Rule: "R1", Signature: "well-formed-message-undecodable", Detail: fmt.Sprintf("%d receive error(s) for well-formed messages; %s", nerr, s.descr)}
	}
	if len(got) != len(s.msgs) {
		return &Violation{Property: "C11", Rule: "R2", Signature: "message-count", Detail: fmt.Sprintf("sent %d messages on one stream, received %d", len(s.msgs), len(got))}
	}
	for i := range s.msgs {
		if d := MessagesEquivalent(s.msgs[i], got[i].Msg); d != "" {
			return &Violation{Property: "C11", Rule: "R1", Signature: "roundtrip-differs:" + strings.Fields(d)[0], Detail: fmt.Sprintf("message %d: %s", i, d)}
		}
	}
	return nil
}

// mustRawCid is the CIDv1 (raw, sha2-256) of the data.
func mustRawCid(data []byte) cid.Cid {
	c, err := cid.Prefix{Version: 1, Codec: cid.Raw, MhType: 0x12, MhLength: -1}.Sum(data)
	if err != nil {
		panic(err)
	}
	return c
}
