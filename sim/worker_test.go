package sim

import (
	"bufio"
	"encoding/json"
	"fmt"
	"hash/fnv"
	"os"
	"runtime"
	"strconv"
	"sync/atomic"
	"testing"
	"time"

	logging "github.com/ipfs/go-log/v2"
)

// registry maps a property to its scenario families.
var registry = map[string][]func() Scenario{}

func register(prop string, mk ...func() Scenario) { registry[prop] = append(registry[prop], mk...) }

func runSeed(base int64, prop string, idx int) int64 {
	h := fnv.New64a()
	fmt.Fprintf(h, "%d|%s|%d", base, prop, idx)
	return int64(h.Sum64() >> 1)
}

type runLine struct {
	Start  *int    `json:"start,omitempty"`
	Done   *int    `json:"done,omitempty"`
	Fam    string  `json:"fam,omitempty"`
	Result *Result `json:"result,omitempty"`
	WallUs int64   `json:"wall_us,omitempty"`
}

// ReplayFile is the on-disk replay format.
type ReplayFile struct {
	Property string   `json:"property"`
	Scenario string   `json:"scenario"`
	Family   int      `json:"family"`
	BaseSeed int64    `json:"base_seed"`
	RunIndex int      `json:"run_index"`
	Tape     []uint32 `json:"tape"`
	Expect   struct {
		Rule      string `json:"rule"`
		Signature string `json:"signature"`
		TraceHash string `json:"trace_hash"`
	} `json:"expect"`
	BySeed bool `json:"by_seed,omitempty"`
	// HistoryFrom: replay needs the process history (package-global state such
	// as a sync.Pool carried over from earlier runs of the same worker): run
	// indices HistoryFrom..RunIndex-1 are re-executed from their seeds first.
	HistoryFrom *int     `json:"history_from,omitempty"`
	Detail      string   `json:"detail,omitempty"`
	World       string   `json:"world,omitempty"`
	Steps       []string `json:"steps,omitempty"`
}

func envInt(name string, def int) int {
	if v := os.Getenv(name); v != "" {
		n, err := strconv.Atoi(v)
		if err == nil {
			return n
		}
	}
	return def
}

// shrink minimises a failing tape by delta debugging: chunk removal, then
// lowering of single entries, keeping a candidate only while the same
// violation class persists.
func shrink(t *testing.T, mk func() Scenario, tape []uint32, class string, budget int, wall time.Duration) ([]uint32, int) {
	deadline := time.Now().Add(wall)
	tries := 0
	fails := func(c []uint32) bool {
		if tries >= budget || time.Now().After(deadline) {
			return false
		}
		tries++
		res := RunOnce(t, mk, NewReplayTape(c), RunOpts{})
		return res.Violation != nil && res.Violation.Class() == class
	}
	cur := append([]uint32(nil), tape...)
	// drop trailing part first (cheap big win)
	for n := len(cur) / 2; n >= 1; n /= 2 {
		for len(cur) > n {
			c := cur[:len(cur)-n]
			if fails(c) {
				cur = append([]uint32(nil), c...)
			} else {
				break
			}
		}
	}
	for chunk := len(cur) / 2; chunk >= 1; chunk /= 2 {
		for i := 0; i+chunk <= len(cur); {
			c := append(append([]uint32(nil), cur[:i]...), cur[i+chunk:]...)
			if fails(c) {
				cur = c
			} else {
				i += chunk
			}
		}
	}
	for pass := 0; pass < 2; pass++ {
		for i := 0; i < len(cur); i++ {
			if cur[i] == 0 {
				continue
			}
			c := append([]uint32(nil), cur...)
			c[i] = 0
			if fails(c) {
				cur = c
				continue
			}
			if cur[i] > 1 {
				c[i] = cur[i] / 2
				if fails(c) {
					cur = c
				}
			}
		}
	}
	for len(cur) > 0 && cur[len(cur)-1] == 0 {
		cur = cur[:len(cur)-1]
	}
	return cur, tries
}

// runStarted is the real-time start of the current run (unix nanos), for the
// in-process watchdog.
var runStarted atomic.Int64
var runIndex atomic.Int64

func startWatchdog() {
	limit := time.Duration(envInt("VERIF_RUN_WATCHDOG_S", 30)) * time.Second
	go func() {
		for {
			time.Sleep(time.Second)
			if st := runStarted.Load(); st != 0 && time.Since(time.Unix(0, st)) > limit {
				fmt.Fprintf(os.Stderr, "WATCHDOG: one run exceeded %v of real time\n", limit)
				buf := make([]byte, 1<<20)
				n := runtime.Stack(buf, true)
				os.Stderr.Write(buf[:n])
				fmt.Fprintf(os.Stdout, "{\"fatal\":\"watchdog: run %d exceeded its real-time limit (harness or CPU-bound run)\"}\n", runIndex.Load())
				os.Exit(3)
			}
		}
	}()
}

func TestWorker(t *testing.T) {
	prop := os.Getenv("VERIF_PROP")
	if prop == "" {
		t.Skip("VERIF_PROP not set")
	}
	startWatchdog()
	if lvl := os.Getenv("VERIF_LOG"); lvl != "" {
		_ = logging.SetLogLevel("*", lvl)
	} else {
		_ = logging.SetLogLevel("*", "fatal")
	}
	fams := registry[prop]
	if len(fams) == 0 {
		fmt.Printf("{\"fatal\":\"no scenario for %s\"}\n", prop)
		os.Exit(2)
	}
	out := bufio.NewWriterSize(os.Stdout, 1<<16)
	defer out.Flush()
	enc := json.NewEncoder(out)

	if rf := os.Getenv("VERIF_REPLAY"); rf != "" {
		data, err := os.ReadFile(rf)
		if err != nil {
			fmt.Printf("{\"fatal\":%q}\n", err.Error())
			os.Exit(2)
		}
		var r ReplayFile
		if err := json.Unmarshal(data, &r); err != nil {
			fmt.Printf("{\"fatal\":%q}\n", err.Error())
			os.Exit(2)
		}
		idx := r.RunIndex
		mk := fams[r.Family%len(fams)]
		if r.BySeed {
			// crash-type findings cannot hand back their tape; re-record from the seed
			mk = fams[idx%len(fams)]
			if r.HistoryFrom != nil {
				for i := *r.HistoryFrom; i < idx; i++ {
					runStarted.Store(time.Now().UnixNano())
					RunOnce(t, fams[i%len(fams)], NewRecordingTape(runSeed(r.BaseSeed, prop, i)), RunOpts{})
				}
			}
			runStarted.Store(time.Now().UnixNano())
			_ = enc.Encode(runLine{Start: &idx})
			out.Flush()
			res := RunOnce(t, mk, NewRecordingTape(runSeed(r.BaseSeed, prop, idx)), RunOpts{KeepTrace: true})
			_ = enc.Encode(runLine{Done: &idx, Result: &res})
			return
		}
		if os.Getenv("VERIF_SHRINK") != "" {
			class := r.Property + "/" + r.Expect.Rule + "/" + r.Expect.Signature
			small, tries := shrink(t, mk, r.Tape, class, envInt("VERIF_SHRINK_BUDGET", 3000), time.Duration(envInt("VERIF_SHRINK_WALL_S", 60))*time.Second)
			fmt.Fprintf(os.Stderr, "shrink: %d -> %d entries in %d candidate runs\n", len(r.Tape), len(small), tries)
			r.Tape = small
		}
		_ = enc.Encode(runLine{Start: &idx})
		out.Flush()
		res := RunOnce(t, mk, NewReplayTape(r.Tape), RunOpts{KeepTrace: true})
		res.Tape = r.Tape
		_ = enc.Encode(runLine{Done: &idx, Fam: fmt.Sprint(r.Family), Result: &res})
		return
	}

	base := int64(envInt("VERIF_SEED", 1))
	from := envInt("VERIF_FROM", 0)
	to := envInt("VERIF_TO", 100)
	keepEvery := envInt("VERIF_KEEP_TRACE_EVERY", 0)
	deadline := time.Now().Add(time.Duration(envInt("VERIF_WALL_S", 3600)) * time.Second)
	for idx := from; idx < to; idx++ {
		if time.Now().After(deadline) {
			break
		}
		i := idx
		_ = enc.Encode(runLine{Start: &i})
		out.Flush()
		fam := idx % len(fams)
		tape := NewRecordingTape(runSeed(base, prop, idx))
		t0 := time.Now()
		runStarted.Store(t0.UnixNano())
		runIndex.Store(int64(idx))
		res := RunOnce(t, fams[fam], tape, RunOpts{KeepTrace: keepEvery > 0 && idx%keepEvery == 0})
		if res.Violation == nil && !(keepEvery > 0 && idx%keepEvery == 0) {
			res.Tape = nil
		}
		_ = enc.Encode(runLine{Done: &i, Fam: fmt.Sprint(fam), Result: &res, WallUs: time.Since(t0).Microseconds()})
	}
}

func init() {
	register("C02", newC02)
	register("C24", newC24)
	register("C07", newC07)
	register("C03", newC03)
	register("C04", newC04, newC04NoFault)
	register("C05", newC05, newC05NoFault)
	register("C23", newC23, newC23NoFault)
	register("C06", newC06Quiet, newC06Racing)
	register("C20", newC20)
	register("C22", newC22)
	register("C21", newC21)
	register("C25", newC25, newC25Requestor)
	register("C09", newC09)
	register("C10", newC10)
	register("C01", newC01)
	register("C13", newC13, newC13Conc)
	register("C14", newC14, newC14Conc)
	register("C18", newC18, newC18Conc)
	register("C19", newC19, newC19Conc)
	register("C15", newC15)
	register("C16", newC16)
	register("C17", newC17)
	register("C11", newC11)
	register("C12", newC12)
	register("C08", newC08)
}
