package sim

import (
	"context"
	"errors"
	"fmt"
	"reflect"
	"regexp"
	"sort"
	"strings"
	"time"
	"unsafe"

	"github.com/ipld/go-ipld-prime"
	"github.com/ipld/go-ipld-prime/node/basicnode"
	"github.com/libp2p/go-libp2p/core/peer"

	"github.com/ipfs/go-graphsync"
	gsimpl "github.com/ipfs/go-graphsync/impl"
)

// lifeReq is one request of the lifecycle world with its scripted environment.
type lifeReq struct {
	r             *Req
	from          *Node
	dag           *DAG
	sel           ipld.Node
	reqHook       string // accept | terminate | pause | reject
	blkHook       string // "" | pause | error  (responder outgoing block hook)
	blkAt         int64
	respErr       int    // requestor response hook errors at its n-th call (0 = never)
	inBlk         string // "" | pause | error (requestor incoming block hook)
	inBlkAt       int64
	setupCancel   bool // the caller's context is cancelled while the request is being set up (from the outgoing-request hook)
	actions       []*lifeAction
	ctxCancelStep int  // step at which the caller cancelled the context (0 = never)
	ctxCancelHeld bool // the requestor still held the request (tag protected) when the context was cancelled
	apiCancelOK   bool
	apiCancelHeld bool
	apiCancelStep int
	forcedCancel  bool // still open after heal and drain: cancelled by the harness to test C04's premise
}

type lifeAction struct {
	name  string // ctxcancel apicancel pause unpause bpause bunpause bcancel update
	at    int    // earliest step
	fired bool
	ret   error
	done  bool
	after *lifeAction // only enabled after this one returned
}

// life is the lifecycle world shared by C04, C05 and C23.
type life struct {
	qStarted, qShutdown map[string]int
	qInst               map[string]string // queue instance (address) -> node>peer
	qInstShut           map[string]bool   // instances told to shut down
	builtIntoShutdown   map[string]bool
	qLive               map[string]int // message queues alive, by remote peer
	qMaxLive            map[string]int
	memLimited          bool
	prop                string
	a, c, b             *Node
	reqs                []*lifeReq
	faults              bool
	allowRequestorPause bool
	descr               string
	phase               int
	probeEvery          int
	diag                *Violation
	pending             int // PeerState probes in flight
}

func newC04() Scenario        { return &life{prop: "C04", allowRequestorPause: true, faults: true} }
func newC04NoFault() Scenario { return &life{prop: "C04", allowRequestorPause: true, faults: false} }
func newC05() Scenario        { return &life{prop: "C05", faults: true} }
func newC05NoFault() Scenario { return &life{prop: "C05", faults: false} }
func newC23() Scenario {
	return &life{prop: "C23", allowRequestorPause: true, faults: true, probeEvery: 2}
}
func newC23NoFault() Scenario {
	return &life{prop: "C23", allowRequestorPause: true, faults: false, probeEvery: 1}
}

func (s *life) Name() string {
	if s.faults {
		return "lifecycle/faults"
	}
	return "lifecycle/fault-free"
}
func (s *life) Property() string { return s.prop }

func (s *life) Build(w *World) {
	t := w.Tape
	drawProfile(w)
	NewFabric(w)
	// which message queues are alive (two instances for one peer at once is the input class of a recorded finding)
	s.qLive, s.qMaxLive = map[string]int{}, map[string]int{}
	w.OnObserve = func(site, detail string, obj any) {
		name := w.Net.Name(peer.ID(detail))
		// which node's queue: the queue's network object carries the node's name
		qkey := mqNodeName(w, obj) + ">" + name
		inst := fmt.Sprintf("%p", obj)
		w.mu.Lock()
		switch site {
		case "messagequeue.started":
			s.qLive[name]++
			if s.qLive[name] > s.qMaxLive[name] {
				s.qMaxLive[name] = s.qLive[name]
			}
		case "messagequeue.exited":
			s.qLive[name]--
		case "messagequeue.shutdown":
			s.qShutdown[qkey]++
			s.qInstShut[inst] = true
		}
		if site == "messagequeue.started" {
			s.qStarted[qkey]++
			s.qInst[inst] = qkey
		}
		w.mu.Unlock()
	}
	// the input class of the recorded C15/C16 finding, seen from the node: something was built into a message
	// queue after every queue instance started for that peer had been told to shut down
	s.qStarted, s.qShutdown, s.builtIntoShutdown = map[string]int{}, map[string]int{}, map[string]bool{}
	s.qInst, s.qInstShut = map[string]string{}, map[string]bool{}
	// (lock-yield runs) a caller held just before the builders' lock of a queue instance that is told to shut down
	// meanwhile builds into that instance afterwards, even if a successor is alive by then: same input class
	buildRe := regexp.MustCompile(`messagequeue\.\(\*MessageQueue\)\.buildMessage\((0x[0-9a-f]+)`)
	w.LockYieldIn = func(x string, d int) string {
		if d > 0 {
			if m := buildRe.FindStringSubmatch(x); m != nil {
				return "build:" + m[1]
			}
			return ""
		}
		addr := strings.TrimPrefix(x, "build:")
		w.mu.Lock()
		if s.qInstShut[addr] {
			s.builtIntoShutdown[s.qInst[addr]] = true
			w.Probes["built-into-queue-shutting-down"]++
		}
		w.mu.Unlock()
		return ""
	}
	w.OnYieldSite = func(site, detail, node string, _ any) {
		if site != "messagequeue.afterBuild" {
			return
		}
		name := w.Net.Name(peer.ID(detail))
		w.mu.Lock()
		if k := node + ">" + name; s.qStarted[k] > 0 && s.qShutdown[k] >= s.qStarted[k] {
			s.builtIntoShutdown[k] = true
			w.Probes["built-into-queue-shutting-down"]++
		}
		w.mu.Unlock()
	}
	// buggify: a random subset of the internal yield sites of the task workers is active
	for _, site := range []string{"taskqueue.afterPop", "queryexecutor.beforeFinishTask", "messagequeue.afterRelease"} {
		if t.Chance(300) {
			w.Yields[site] = true
		}
	}
	// lock-yield build: in a third of the runs a subset of the responder's sending path also yields before every
	// lock acquisition made with no instrumented lock held (chosen from the tape's digest: no draw)
	if d := t.Digest(); d%3 == 0 {
		var on []string
		for i, f := range lifeLockYieldFiles {
			if (d>>(8+uint(i)))&1 == 1 {
				on = append(on, f)
			}
		}
		w.EnableLockYields(on...)
	}
	if s.faults {
		w.Net.SendFaults = []string{"fail", "acklost"}
		w.Net.ConnectFaults = []string{"fail"}
		w.Net.DisconnectFaults = t.Chance(300)
		w.Prof.FaultPm = map[string]int{"send": []int{0, 30, 80, 200}[t.Draw(4)], "connect": []int{0, 0, 100, 300}[t.Draw(4)], "load": []int{0, 0, 40}[t.Draw(3)]}
		w.Prof.FaultBudget = 1 + t.Draw(5)
		w.Prof.Weights["disconnect"] = 1
	}
	retries := 1 + t.Draw(3)
	opts := []gsimpl.Option{gsimpl.MessageSendRetries(retries), gsimpl.SendMessageTimeout(time.Duration(1+t.Draw(30)) * time.Second)}
	bopts := append([]gsimpl.Option{gsimpl.RejectAllRequestsByDefault(), gsimpl.MaxInProgressIncomingRequests(uint64(1 + t.Draw(3)))}, opts...)
	if t.Chance(250) {
		// swarm: back-pressure - the responder may hold only a few blocks' worth of unsent data per peer,
		// so traversals wait for memory and are woken by whatever returns it
		lim := uint64([]int{800, 1200, 2000}[t.Draw(3)]) // always more than the largest block
		bopts = append(bopts, gsimpl.MaxMemoryPerPeerResponder(lim), gsimpl.MaxMemoryResponder(2*lim))
		s.memLimited = true
		if s.faults && t.Chance(500) {
			// ... and sends fail for good at the first attempt, while the queue itself survives
			bopts = append(bopts, gsimpl.MessageSendRetries(1))
			w.Prof.FaultPm["send"] = 250
			w.Prof.FaultBudget = 2 + t.Draw(4)
		}
	}
	s.b = NewNode(w, "B", NodeCfg{GateReads: true, Opts: bopts})
	if s.faults {
		s.b.Store.ReadFaults = []string{"err"}
	}
	s.a = NewNode(w, "A", NodeCfg{GateReads: true, GateCommits: true, Opts: opts})
	requestors := []*Node{s.a}
	if t.Chance(300) {
		s.c = NewNode(w, "C", NodeCfg{GateReads: true, GateCommits: true, Opts: opts})
		requestors = append(requestors, s.c)
	}
	nreq := 1 + t.Draw(3)
	// swarm: some runs are failure-heavy (most requests refused), so that several
	// failure statuses travel in one message
	refuseHeavy := t.Chance(150)
	for i := 0; i < nreq; i++ {
		from := requestors[t.Draw(len(requestors))]
		lr := &lifeReq{from: from}
		lr.dag = GenDAG(t, GenCfg{MaxBlocks: 2 + t.Draw(10), MaxDepth: 1 + t.Draw(4), Share: []int{0, 200}[t.Draw(2)], BlockPad: []int{0, 30}[t.Draw(2)]})
		lr.sel = AllSelector(int64(2 + t.Draw(8)))
		if t.Chance(250) {
			lr.sel, _ = GenSelector(t, 6)
		}
		for _, c := range lr.dag.Order {
			if !t.Chance(80) {
				s.b.Store.Put(c, lr.dag.Blocks[c])
			}
			if t.Chance(150) {
				from.Store.Put(c, lr.dag.Blocks[c])
			}
		}
		lr.reqHook = []string{"accept", "accept", "accept", "accept", "terminate", "pause", "reject"}[t.Draw(7)]
		if refuseHeavy && t.Chance(800) {
			lr.reqHook = []string{"terminate", "reject"}[t.Draw(2)]
		}
		if t.Chance(300) {
			lr.blkHook = []string{"pause", "error"}[t.Draw(2)]
			lr.blkAt = int64(1 + t.Draw(5))
		}
		if t.Chance(100) {
			lr.respErr = 1 + t.Draw(2)
		}
		if t.Chance(70) {
			lr.setupCancel = true
		}
		if t.Chance(200) && (s.allowRequestorPause || true) {
			lr.inBlk = "error"
			if s.allowRequestorPause && t.Chance(500) {
				lr.inBlk = "pause"
			}
			lr.inBlkAt = int64(1 + t.Draw(5))
		}
		lr.r = from.NewReq(fmt.Sprintf("q%d", i), s.b, lr.dag.Root, lr.sel)
		// caller / operator actions
		nact := t.Draw(3)
		names := []string{"ctxcancel", "apicancel", "bpause", "bcancel", "update", "bupdate"}
		if s.allowRequestorPause {
			names = append(names, "pause")
		}
		used := map[string]bool{}
		for k := 0; k < nact; k++ {
			nm := names[t.Draw(len(names))]
			if used[nm] {
				continue
			}
			used[nm] = true
			act := &lifeAction{name: nm, at: t.Draw(120)}
			lr.actions = append(lr.actions, act)
			switch nm {
			case "pause":
				lr.actions = append(lr.actions, &lifeAction{name: "unpause", at: act.at + t.Draw(60), after: act})
			case "bpause":
				lr.actions = append(lr.actions, &lifeAction{name: "bunpause", at: act.at + t.Draw(60), after: act})
			}
		}
		s.reqs = append(s.reqs, lr)
		var an []string
		for _, a := range lr.actions {
			an = append(an, fmt.Sprintf("%s@%d", a.name, a.at))
		}
		s.descr += fmt.Sprintf("[%s %s>B dag=%d req=%s blk=%s@%d respErr=%d inBlk=%s@%d acts=%s]", lr.r.Label, from.Name, len(lr.dag.Order), lr.reqHook, lr.blkHook, lr.blkAt, lr.respErr, lr.inBlk, lr.inBlkAt, strings.Join(an, ","))
		if lr.setupCancel {
			s.descr += "{cancel-during-setup}"
		}
	}
	byID := map[graphsync.RequestID]*lifeReq{}
	for _, lr := range s.reqs {
		byID[lr.r.ID] = lr
	}
	marker := graphsync.ExtensionData{Name: "sim/marker", Data: basicnode.NewString("m")}
	s.b.OnIncomingRequest = func(p peer.ID, r graphsync.RequestData, a graphsync.IncomingRequestHookActions) {
		lr := byID[r.ID()]
		if lr == nil {
			a.ValidateRequest()
			return
		}
		switch lr.reqHook {
		case "accept":
			a.ValidateRequest()
		case "terminate":
			a.ValidateRequest()
			a.TerminateWithError(errors.New("sim: request hook refuses"))
		case "pause":
			a.ValidateRequest()
			a.PauseResponse()
		case "reject":
		}
	}
	s.b.OnOutgoingBlock = func(p peer.ID, r graphsync.RequestData, b graphsync.BlockData, a graphsync.OutgoingBlockHookActions) {
		lr := byID[r.ID()]
		if lr == nil || lr.blkHook == "" || b.Index() != lr.blkAt {
			return
		}
		if lr.blkHook == "pause" {
			a.PauseResponse()
		} else {
			a.TerminateWithError(errors.New("sim: block hook refuses"))
		}
	}
	s.b.OnRequestUpdated = func(p peer.ID, r graphsync.RequestData, u graphsync.RequestData, a graphsync.RequestUpdatedHookActions) {
		a.SendExtensionData(marker)
	}
	for _, n := range requestors {
		n := n
		calls := map[graphsync.RequestID]int{}
		n.OnIncomingResponse = func(p peer.ID, r graphsync.ResponseData, a graphsync.IncomingResponseHookActions) {
			lr := byID[r.RequestID()]
			if lr == nil || lr.respErr == 0 {
				return
			}
			calls[r.RequestID()]++
			if calls[r.RequestID()] == lr.respErr {
				a.TerminateWithError(errors.New("sim: response hook refuses"))
			}
		}
		n.OnOutgoingRequest = func(p peer.ID, r graphsync.RequestData, a graphsync.OutgoingRequestHookActions) {
			if lr := byID[r.ID()]; lr != nil && lr.setupCancel && lr.ctxCancelStep == 0 {
				// the caller gives up at the worst moment: the request is half set up
				w.Probe("act:ctxcancel-during-setup")
				w.Effect("act %s %s ctxcancel during setup", n.Name, lr.r.Label)
				lr.ctxCancelStep = w.Step
				lr.r.Cancel()
			}
		}
		n.OnIncomingBlock = func(p peer.ID, r graphsync.ResponseData, b graphsync.BlockData, a graphsync.IncomingBlockHookActions) {
			lr := byID[r.RequestID()]
			if lr == nil || lr.inBlk == "" || b.Index() != lr.inBlkAt {
				return
			}
			if lr.inBlk == "pause" {
				a.PauseRequest()
			} else {
				a.TerminateWithError(errors.New("sim: incoming block hook refuses"))
			}
		}
	}
	w.AddProvider(s.events(w))
}

func (s *life) held(n *Node, id graphsync.RequestID, to peer.ID) bool {
	for _, k := range n.Host.cm.Protected() {
		if k == string(to)+"|"+id.Tag() {
			return true
		}
	}
	return false
}

func (s *life) events(w *World) func() []*Event {
	return func() []*Event {
		var evs []*Event
		for _, lr := range s.reqs {
			lr := lr
			if !lr.r.Issued {
				evs = append(evs, lr.r.IssueEvent())
				continue
			}
			if !lr.r.Returned {
				continue
			}
			for _, a := range lr.actions {
				a := a
				if a.fired || w.Step < a.at || w.draining && s.phase == 0 && false {
					continue
				}
				if a.after != nil && !(a.after.done && a.after.ret == nil) {
					continue
				}
				evs = append(evs, Inject("api", fmt.Sprintf("act|%s|%s|%s", lr.from.Name, lr.r.Label, a.name), func(string) { s.fire(w, lr, a) }))
			}
		}
		return evs
	}
}

func (s *life) fire(w *World, lr *lifeReq, a *lifeAction) {
	a.fired = true
	id := lr.r.ID
	w.Effect("act %s %s %s", lr.from.Name, lr.r.Label, a.name)
	w.Probe("act:" + a.name)
	call := func(f func() error) {
		go func() {
			err := f()
			a.ret = err
			a.done = true
			w.Effect("act %s %s %s returned %v", lr.from.Name, lr.r.Label, a.name, err)
		}()
	}
	ctx := context.Background()
	switch a.name {
	case "ctxcancel":
		lr.ctxCancelStep = w.Step
		lr.ctxCancelHeld = s.held(lr.from, id, s.b.ID) && !lr.r.Done()
		lr.r.Cancel()
		a.done = true
	case "apicancel":
		held := s.held(lr.from, id, s.b.ID)
		lr.apiCancelStep = w.Step
		call(func() error {
			err := lr.from.GS.Cancel(ctx, id)
			if err == nil {
				lr.apiCancelOK = true
				lr.apiCancelHeld = held
			}
			return err
		})
	case "pause":
		call(func() error { return lr.from.GS.Pause(ctx, id) })
	case "unpause":
		call(func() error { return lr.from.GS.Unpause(ctx, id) })
	case "update":
		call(func() error {
			return lr.from.GS.SendUpdate(ctx, id, graphsync.ExtensionData{Name: "sim/update", Data: basicnode.NewString("u")})
		})
	case "bpause":
		call(func() error { return s.b.GS.Pause(ctx, id) })
	case "bunpause":
		call(func() error { return s.b.GS.Unpause(ctx, id) })
	case "bcancel":
		call(func() error { return s.b.GS.Cancel(ctx, id) })
	case "bupdate":
		call(func() error {
			return s.b.GS.SendUpdate(ctx, id, graphsync.ExtensionData{Name: "sim/bupdate", Data: basicnode.NewString("u")})
		})
	}
}

func (s *life) Describe(w *World) string { return s.descr }

func (s *life) Done(w *World) bool {
	for _, lr := range s.reqs {
		if !lr.r.Done() {
			return false
		}
		for _, a := range lr.actions {
			if !a.fired && a.after == nil {
				return false
			}
		}
	}
	return s.phase >= 1
}

// Heal: network recovers; every paused exchange is unpaused (the proviso of C05).
func (s *life) Heal(w *World) {
	w.Net.Heal()
	s.unpauseAll(w)
}

func (s *life) unpauseAll(w *World) {
	// one call at a time, each settled before the next: concurrent calls would
	// race into the actor mailboxes in an order the scheduler does not decide
	for _, lr := range s.reqs {
		lr := lr
		w.Sync(func() { _ = s.b.GS.Unpause(context.Background(), lr.r.ID) })
		w.Sync(func() { _ = lr.from.GS.Unpause(context.Background(), lr.r.ID) })
	}
}

// NextPhase: after the first drain, unpause again (a pause may have landed
// late), then cancel whatever is still open so that C04's premise holds.
func (s *life) NextPhase(w *World, phase int) bool {
	s.phase = phase
	switch phase {
	case 1:
		s.unpauseAll(w)
		return true
	case 2:
		any := false
		for _, lr := range s.reqs {
			if lr.r.Issued && !lr.r.Done() {
				any = true
				lr.forcedCancel = true
				if lr.ctxCancelStep == 0 {
					lr.ctxCancelStep = w.Step
					lr.ctxCancelHeld = s.held(lr.from, lr.r.ID, s.b.ID)
					w.Effect("final ctx cancel %s", lr.r.Label)
				}
				lr.r.Cancel()
			}
		}
		// responder-side leftovers paused with nobody to resume them are cancelled by the operator
		for _, lr := range s.reqs {
			lr := lr
			w.Sync(func() { _ = s.b.GS.Cancel(context.Background(), lr.r.ID) })
		}
		return any || true
	}
	return false
}

func (s *life) Invariant(w *World) *Violation { return nil }

// Probe (C23 only): ask every node for its reported state at this quiescent
// point and compare it with the task queues.
func (s *life) Probe(w *World) func() *Violation {
	if s.prop != "C23" || s.probeEvery == 0 || w.Step%s.probeEvery != 0 {
		return nil
	}
	nodes := []*Node{s.a, s.b, s.c}
	type res struct {
		done bool
		v    *Violation
	}
	results := make([]*res, len(nodes))
	for i, n := range nodes {
		if n == nil {
			continue
		}
		if w.YieldParked(n.Name) {
			// a transition we froze ourselves, not a state the node reports about itself
			w.Probe("c23-skip-yield-parked")
			continue
		}
		r := &res{}
		results[i] = r
		n := n
		go func() {
			r.v = checkPeerStates(n, nodes)
			r.done = true
		}()
	}
	return func() *Violation {
		for _, r := range results {
			if r == nil {
				continue
			}
			if !r.done {
				w.Probe("c23-peerstate-blocked")
				continue
			}
			w.Probe("c23-peerstate-compared")
			if r.v != nil {
				return r.v
			}
		}
		return nil
	}
}

// ---- oracles -------------------------------------------------------------------

func countErr[T error](errs []error) int {
	n := 0
	for _, e := range errs {
		var t T
		if errors.As(e, &t) {
			n++
		}
	}
	return n
}

func (s *life) Final(w *World) *Violation {
	switch s.prop {
	case "C04":
		return s.finalC04(w)
	case "C05":
		return s.finalC05(w)
	case "C23":
		return s.finalC23(w)
	}
	return nil
}

func (s *life) requestorPaused(lr *lifeReq) bool {
	if lr.inBlk == "pause" {
		return true
	}
	for _, a := range lr.actions {
		if a.name == "pause" && a.fired {
			return true
		}
	}
	return false
}

func (s *life) finalC04(w *World) *Violation {
	for _, lr := range s.reqs {
		r := lr.r
		if !r.Issued {
			continue
		}
		// R1b: by now every request was either answered terminally or cancelled by its caller
		if !r.Done() {
			return &Violation{Property: "C04", Rule: "R1", Signature: "channels-open:" + s.stuckSig(w, lr), Detail: fmt.Sprintf("%s: progress closed=%v errors closed=%v after cancel and drain; %s", r.Label, r.ProgClosed, r.ErrClosed, s.descr)}
		}
		termSt, termStep, termSeen := s.firstTerminalStatus(lr)
		// R1a: a terminal status from the responder closes the channels without the
		// caller having to cancel (a requestor-side pause legitimately defers that)
		if termSeen && lr.forcedCancel && !s.requestorPaused(lr) {
			return &Violation{Property: "C04", Rule: "R1", Signature: fmt.Sprintf("open-after-terminal-status-%d", termSt), Detail: fmt.Sprintf("%s: terminal status %d delivered at step %d while the request was held, no requestor pause, yet the channels stayed open until the caller cancelled; %s", r.Label, termSt, termStep, s.descr)}
		}
		failSt, failStep, failSeen := s.firstFailureStatus(lr)
		localErr := lr.respErr != 0 || lr.inBlk == "error"
		nCancelErr := countErr[graphsync.RequestClientCancelledErr](r.Errs)
		callerCancel := (lr.ctxCancelStep != 0 && !lr.forcedCancel) || lr.apiCancelOK
		cancelled := lr.ctxCancelHeld || (lr.apiCancelOK && lr.apiCancelHeld)
		if cancelled {
			// R3a: client-cancelled error, unless another terminal cause came first
			otherCauseFirst := localErr || (failSeen && (lr.ctxCancelStep == 0 || failStep <= lr.ctxCancelStep))
			if nCancelErr == 0 && !otherCauseFirst {
				return &Violation{Property: "C04", Rule: "R3", Signature: "no-client-cancelled-error", Detail: fmt.Sprintf("%s cancelled by its caller while in progress (ctx=%v api=%v) but no RequestClientCancelledErr was read; errors %v", r.Label, lr.ctxCancelHeld, lr.apiCancelOK, errStrings(r.Errs))}
			}
			// R3b: a cancel reached the network layer, or its failure was reported
			if !s.cancelOnWireOrReported(w, lr) {
				sig := "no-cancel-sent"
				if t := s.laterRequestOnWire(w, lr); t != "" {
					// the queued Cancel shared its slot in the outgoing message with a later
					// request of the same ID, which replaced it
					sig += ":superseded-by-" + t
					w.mu.Lock()
					if t == "new" && (w.Yields["lock:messagequeue/messagequeue.go"] || w.Yields["lock:peermanager/peermanager.go"]) {
						// only a run in which a goroutine can be held between two lock acquisitions of the sending
						// path can show this; a plain run showing superseded-by-new is the old defect come back
						sig += ":overtaken-at-a-lock"
					}
					w.mu.Unlock()
				}
				w.mu.Lock()
				if s.builtIntoShutdown[r.Node.Name+">"+w.Net.Name(r.To)] {
					// input class of the recorded C15/C16 finding: the Cancel was built into a queue already told to shut down
					sig += ":built-into-queue-shutting-down"
				}
				w.mu.Unlock()
				return &Violation{Property: "C04", Rule: "R3", Signature: sig, Detail: fmt.Sprintf("%s cancelled while the requestor still held it, but no Cancel for it was put on the wire nor reported to the network-error listener", r.Label)}
			}
		}
		// R5: at most one client-cancelled error per cause
		causes := 0
		if lr.ctxCancelStep != 0 {
			causes++
		}
		if lr.apiCancelOK {
			causes++
		}
		if nCancelErr > causes {
			return &Violation{Property: "C04", Rule: "R5", Signature: "duplicate-client-cancelled", Detail: fmt.Sprintf("%s: %d client-cancelled errors for %d cancellation cause(s)", r.Label, nCancelErr, causes)}
		}
		// R4: a failure status delivered while the request is held, with no caller
		// cancellation, local error or requestor pause in play, yields an error identifying it
		if failSeen && !callerCancel && !lr.forcedCancel && !localErr && !s.requestorPaused(lr) {
			if !identifies(r.Errs, failSt) {
				return &Violation{Property: "C04", Rule: "R4", Signature: fmt.Sprintf("status-%d-not-reported", failSt), Detail: fmt.Sprintf("%s: responder failure status %d delivered at step %d, errors read: %v", r.Label, failSt, failStep, errStrings(r.Errs))}
			}
			n := 0
			for _, e := range r.Errs {
				if identifies([]error{e}, failSt) {
					n++
				}
			}
			if n > 1 {
				return &Violation{Property: "C04", Rule: "R5", Signature: "duplicate-status-error", Detail: fmt.Sprintf("%s: status %d reported %d times", r.Label, failSt, n)}
			}
		}
	}
	return nil
}

func (s *life) firstTerminalStatus(lr *lifeReq) (graphsync.ResponseStatusCode, int, bool) {
	for _, h := range lr.from.Responses {
		if h.Req == lr.r.ID && h.Peer == "B" && h.Held && h.Status.IsTerminal() {
			return h.Status, h.Step, true
		}
	}
	return 0, 0, false
}

func errStrings(errs []error) []string {
	var out []string
	for _, e := range errs {
		out = append(out, fmt.Sprintf("%T:%v", e, e))
	}
	return out
}

// identifies: typed error for the typed statuses, otherwise text with the numeric code.
func identifies(errs []error, st graphsync.ResponseStatusCode) bool {
	for _, e := range errs {
		switch st {
		case graphsync.RequestFailedBusy:
			if countErr[graphsync.RequestFailedBusyErr]([]error{e}) > 0 {
				return true
			}
		case graphsync.RequestFailedContentNotFound:
			if countErr[graphsync.RequestFailedContentNotFoundErr]([]error{e}) > 0 {
				return true
			}
		case graphsync.RequestFailedLegal:
			if countErr[graphsync.RequestFailedLegalErr]([]error{e}) > 0 {
				return true
			}
		case graphsync.RequestFailedUnknown:
			if countErr[graphsync.RequestFailedUnknownErr]([]error{e}) > 0 {
				return true
			}
		case graphsync.RequestCancelled:
			if countErr[graphsync.RequestCancelledErr]([]error{e}) > 0 {
				return true
			}
		default:
			if strings.Contains(e.Error(), fmt.Sprintf("%d", int(st))) {
				return true
			}
		}
	}
	return false
}

func (s *life) firstFailureStatus(lr *lifeReq) (graphsync.ResponseStatusCode, int, bool) {
	for _, h := range lr.from.Responses {
		if h.Req == lr.r.ID && h.Peer == "B" && h.Held && h.Status.IsFailure() {
			return h.Status, h.Step, true
		}
	}
	return 0, 0, false
}

// localErrorBefore: a local hook error or store error hit the request before the step.
func (s *life) localErrorBefore(lr *lifeReq, step int) bool {
	if lr.respErr != 0 || lr.inBlk == "error" {
		return true
	}
	for _, a := range lr.actions {
		if (a.name == "pause" || a.name == "apicancel") && a.fired {
			return true
		}
	}
	return false
}

func (s *life) cancelOnWireOrReported(w *World, lr *lifeReq) bool {
	for _, wm := range w.Net.WireFor(lr.from.Name, "B") {
		if wm.Err != nil {
			continue
		}
		for _, rq := range wm.Msg.Requests() {
			if rq.ID() == lr.r.ID && rq.Type() == graphsync.RequestTypeCancel {
				return true
			}
		}
	}
	for _, e := range lr.from.NetErrs {
		if e.Req == lr.r.ID {
			return true
		}
	}
	return false
}

// laterRequestOnWire: type of the last non-cancel request for the ID that went
// out after the cancellation (the one that can have replaced the queued Cancel).
func (s *life) laterRequestOnWire(w *World, lr *lifeReq) string {
	cancelStep := lr.ctxCancelStep
	if lr.apiCancelOK && (cancelStep == 0 || lr.apiCancelStep < cancelStep) {
		cancelStep = lr.apiCancelStep
	}
	last := ""
	for _, wm := range w.Net.WireFor(lr.from.Name, "B") {
		if wm.Err != nil || wm.Step < cancelStep {
			continue
		}
		for _, rq := range wm.Msg.Requests() {
			if rq.ID() == lr.r.ID && rq.Type() != graphsync.RequestTypeCancel {
				last = strings.ToLower(string(rq.Type()))
			}
		}
	}
	return last
}

// stuckSig names what the request looks like from outside, for stable signatures.
func (s *life) stuckSig(w *World, lr *lifeReq) string {
	parts := []string{}
	if lr.ctxCancelStep != 0 {
		parts = append(parts, "ctx-cancelled")
	}
	if !lr.r.ProgClosed {
		parts = append(parts, "progress-open")
	}
	if !lr.r.ErrClosed {
		parts = append(parts, "errors-open")
	}
	return strings.Join(parts, "+")
}

// ---- C05 ---------------------------------------------------------------------

type reqKey struct {
	peer string
	id   graphsync.RequestID
}

func (s *life) finalC05(w *World) *Violation {
	b := s.b
	received := map[reqKey]int{}
	var order []reqKey
	for _, h := range b.Incoming {
		k := reqKey{h.Peer, h.Req}
		if received[k] == 0 {
			order = append(order, k)
		}
		received[k]++
	}
	for _, k := range order {
		if received[k] > 1 {
			// re-sent request IDs (requestor pause/resume) are C06's subject
			w.Probe("c05-skip-resent-id")
			continue
		}
		nCompleted, nCancelled, nNetErr := 0, 0, 0
		var completedStatus graphsync.ResponseStatusCode
		for _, e := range b.Completed {
			if e.Req == k.id && e.Peer == k.peer {
				nCompleted++
				completedStatus = e.Status
			}
		}
		for _, e := range b.Cancelled {
			if e.Req == k.id && e.Peer == k.peer {
				nCancelled++
			}
		}
		for _, e := range b.NetErrs {
			if e.Req == k.id && e.Peer == k.peer {
				nNetErr++
			}
		}
		lbl := shortReq(k.id)
		switch {
		case nCompleted > 1:
			return &Violation{Property: "C05", Rule: "R1", Signature: "completed-twice", Detail: fmt.Sprintf("request %s reported completed %d times", lbl, nCompleted)}
		case nCancelled > 1:
			return &Violation{Property: "C05", Rule: "R1", Signature: "cancelled-twice", Detail: fmt.Sprintf("request %s reported cancelled %d times", lbl, nCancelled)}
		case nCompleted >= 1 && completedStatus.IsSuccess() && netErrBefore(b, k.id, k.peer):
			// a response whose data was (partly) lost on the network cannot also have completed successfully
			sig := "completed-and-network-error"
			w.mu.Lock()
			if s.qMaxLive[k.peer] > 1 {
				sig += ":overlapping-queues"
			}
			w.mu.Unlock()
			return &Violation{Property: "C05", Rule: "R1", Signature: sig, Detail: fmt.Sprintf("request %s reported failed on the network (%d time(s), the first before its completion) and then completed with status %d", lbl, nNetErr, completedStatus)}
		case nCompleted == 1 && nCancelled == 1:
			return &Violation{Property: "C05", Rule: "R1", Signature: "completed-and-cancelled", Detail: fmt.Sprintf("request %s reported both completed (status %d) and cancelled", lbl, completedStatus)}
		case nCompleted == 0 && nCancelled == 0 && nNetErr == 0:
			sig := "no-outcome:" + s.respState(k)
			w.mu.Lock()
			if s.builtIntoShutdown["B>"+k.peer] {
				sig += ":built-into-queue-shutting-down"
			}
			w.mu.Unlock()
			return &Violation{Property: "C05", Rule: "R1", Signature: sig, Detail: fmt.Sprintf("request %s from %s reached no outcome: not completed, not cancelled, no network error; %s", lbl, k.peer, s.descr)}
		}
		// R2 no state left
		if st, ok := s.respStateOf(k); ok {
			return &Violation{Property: "C05", Rule: "R2", Signature: "state-left:" + st, Detail: fmt.Sprintf("request %s still listed in PeerState as %s after its outcome (completed=%d cancelled=%d neterr=%d)", lbl, st, nCompleted, nCancelled, nNetErr)}
		}
		// R3 protection released
		for _, p := range b.Host.cm.Protected() {
			if strings.HasSuffix(p, "|"+k.id.Tag()) {
				return &Violation{Property: "C05", Rule: "R3", Signature: "still-protected", Detail: fmt.Sprintf("connection protection for request %s not released", lbl)}
			}
		}
		// R4 completed status equals the terminal status on the wire
		if nCompleted == 1 {
			out := ResponderOutput(w.Net.WireFor("B", k.peer), k.id)
			var wireTerm graphsync.ResponseStatusCode
			for _, st := range out.Statuses {
				if st.IsTerminal() {
					wireTerm = st
				}
			}
			if wireTerm != completedStatus {
				return &Violation{Property: "C05", Rule: "R4", Signature: "completed-status-mismatch", Detail: fmt.Sprintf("request %s: completed listener got %d, terminal status on the wire %d", lbl, completedStatus, wireTerm)}
			}
		}
	}
	st := b.GS.Stats()
	if st.IncomingRequests.Active != 0 || st.IncomingRequests.Pending != 0 {
		return &Violation{Property: "C05", Rule: "R2", Signature: "stats-nonzero", Detail: fmt.Sprintf("responder stats after everything retired: %+v", st.IncomingRequests)}
	}
	return nil
}

func (s *life) respStateOf(k reqKey) (string, bool) {
	var pid peer.ID
	for id, n := range s.b.W.Net.names {
		if n == k.peer {
			pid = id
		}
	}
	var st graphsync.RequestState
	var ok bool
	if !s.b.W.Sync(func() {
		ps := s.b.Impl.PeerState(pid)
		st, ok = ps.IncomingState.RequestStates[k.id]
	}) {
		return "peerstate-blocked", true
	}
	if ok {
		return st.String(), true
	}
	return "", false
}

func (s *life) respState(k reqKey) string {
	st, ok := s.respStateOf(k)
	if !ok {
		return "no-state"
	}
	return strings.ReplaceAll(st, " ", "-")
}

// ---- C23 ---------------------------------------------------------------------

func (s *life) finalC23(w *World) *Violation {
	for _, n := range []*Node{s.a, s.b, s.c} {
		if n == nil {
			continue
		}
		st := n.GS.Stats()
		if st.OutgoingRequests.Active != 0 || st.OutgoingRequests.Pending != 0 || st.IncomingRequests.Active != 0 || st.IncomingRequests.Pending != 0 {
			return &Violation{Property: "C23", Rule: "R3", Signature: "stats-requests-nonzero:" + n.Name, Detail: fmt.Sprintf("%s after all requests ended: %+v %+v", n.Name, st.OutgoingRequests, st.IncomingRequests)}
		}
		if st.OutgoingResponses.TotalAllocatedAllPeers != 0 || st.OutgoingResponses.TotalPendingAllocations != 0 {
			sig := "stats-memory-nonzero:" + n.Name
			w.mu.Lock()
			for k := range s.builtIntoShutdown {
				if strings.HasPrefix(k, n.Name+">") {
					sig += ":built-into-queue-shutting-down"
					break
				}
			}
			w.mu.Unlock()
			return &Violation{Property: "C23", Rule: "R3", Signature: sig, Detail: fmt.Sprintf("%s after all requests ended: %+v", n.Name, st.OutgoingResponses)}
		}
	}
	return nil
}

// checkPeerStates compares reported request states with the task queues.
func checkPeerStates(n *Node, peers []*Node) *Violation {
	for _, p := range peers {
		if p == nil || p == n {
			continue
		}
		ps := n.Impl.PeerState(p.ID)
		for _, side := range []struct {
			name string
			st   interface {
				Diagnostics() map[graphsync.RequestID][]string
			}
		}{{"outgoing", ps.OutgoingState}, {"incoming", ps.IncomingState}} {
			d := side.st.Diagnostics()
			if len(d) > 0 {
				var ids []string
				var first string
				for id, msgs := range d {
					ids = append(ids, shortReq(id))
					first = strings.Join(msgs, "; ")
				}
				sort.Strings(ids)
				sig := side.name + "-state-vs-queue"
				if side.name == "incoming" {
					// input class of a recorded finding: the same request ID reached this
					// responder twice (requestor pause/resume re-sends the request under its old ID)
					seen := map[graphsync.RequestID]int{}
					for _, h := range n.Incoming {
						seen[h.Req]++
					}
					for id := range d {
						if seen[id] > 1 {
							sig += ":resent-request-id"
							break
						}
					}
				}
				return &Violation{Property: "C23", Rule: "R1", Signature: sig, Detail: fmt.Sprintf("%s %s state of peer %s: %s", n.Name, side.name, p.Name, first)}
			}
		}
	}
	return nil
}

// netErrBefore: a network error was reported for the response before it was reported completed.
func netErrBefore(b *Node, id graphsync.RequestID, peerName string) bool {
	first := 1 << 30
	for _, e := range b.Completed {
		if e.Req == id && e.Peer == peerName && e.Step < first {
			first = e.Step
		}
	}
	for _, e := range b.NetErrs {
		if e.Req == id && e.Peer == peerName && e.Step < first {
			return true
		}
	}
	return false
}

// lifeLockYieldFiles: the files of the whole-node lifecycle world that the lock-yield build instruments (the
// sending path; not the traverser, whose state mutex is handed from one goroutine to another).
var lifeLockYieldFiles = []string{"messagequeue/messagequeue.go", "responsemanager/responseassembler/responseassembler.go", "responsemanager/responseassembler/peerlinktracker.go", "peermanager/peermanager.go", "notifications/publisher.go", "allocator/allocator.go", "taskqueue/taskqueue.go"}

// mqNodeName names the node a message queue belongs to (its unexported network field is the node's network object,
// which the node named when it was built); "" if it cannot be told.
func mqNodeName(w *World, q any) string {
	v := reflect.ValueOf(q)
	if v.Kind() != reflect.Ptr || v.IsNil() || v.Elem().Kind() != reflect.Struct {
		return ""
	}
	f := v.Elem().FieldByName("network")
	if !f.IsValid() || !f.CanAddr() {
		return ""
	}
	net := reflect.NewAt(f.Type(), unsafe.Pointer(f.UnsafeAddr())).Elem().Interface()
	w.mu.Lock()
	defer w.mu.Unlock()
	return w.objNames[net]
}
