package sim

import (
	"bytes"
	"context"
	"errors"
	"fmt"
	"io"
	"os"
	"sort"
	"sync"
	"time"

	"github.com/libp2p/go-libp2p/core/connmgr"
	"github.com/libp2p/go-libp2p/core/host"
	"github.com/libp2p/go-libp2p/core/network"
	"github.com/libp2p/go-libp2p/core/peer"
	"github.com/libp2p/go-libp2p/core/protocol"

	gsmsg "github.com/ipfs/go-graphsync/message"
	gsmsgv2 "github.com/ipfs/go-graphsync/message/v2"
)

// Fabric is the simulated libp2p network shared by all hosts of a world.
type Fabric struct {
	w         *World
	mu        sync.Mutex
	hosts     map[peer.ID]*SimHost
	names     map[peer.ID]string
	connected map[string]bool // "A~B" with A<B
	streams   []*SimStream
	streamSeq map[string]int
	pending   []*pendingNotify
	notifySeq int
	Wire      []*WireMsg
	Resets    map[string]string // stream id -> why it was reset (first reason)
	// LostInFlight counts resets that discarded bytes already accepted from the writer.
	LostInFlight int
	handler      *gsmsgv2.MessageHandler
	// Partitioned pairs: every connect and write fails.
	Partition map[string]bool
	// GateNewStream makes NewStream a gate of its own.
	GateNewStream bool
	// StallHeal is closed by Heal to release stalled writes.
	stallHeal chan struct{}
	// Fragment allows deliver events to hand over partial messages.
	Fragment bool
	// DisconnectFaults enables injectable disconnect events.
	DisconnectFaults bool
	// SendFaults lists the non-plain outcomes of a send gate.
	SendFaults []string
	// SendFaultPairs, when set, restricts send faults to these "from>to" pairs.
	SendFaultPairs map[string]bool
	// ConnectFaults lists the non-plain outcomes of a connect gate.
	ConnectFaults []string
	// DeliverFaults lists the non-plain outcomes of a deliver event.
	DeliverFaults []string
	// StalledPairs: writes from the first to the second node ("B>S") block until
	// their deadline or a reset; Heal does not release them.
	StalledPairs map[string]bool
	// StalledDials: dials from the first to the second node ("B>S") do not come back.
	StalledDials map[string]bool
}

type pendingNotify struct {
	key       string
	at        *SimHost
	other     peer.ID
	connected bool
}

// WireMsg is one message as seen by the wire observer.
type WireMsg struct {
	Step   int
	From   string
	To     string
	Stream string
	Raw    []byte
	Msg    gsmsg.GraphSyncMessage
	Err    error
	// Delivered is the step at which the last byte reached the receiver (0 = never).
	Delivered int
}

func NewFabric(w *World) *Fabric {
	f := &Fabric{
		w: w, hosts: map[peer.ID]*SimHost{}, names: map[peer.ID]string{},
		connected: map[string]bool{}, streamSeq: map[string]int{},
		handler: gsmsgv2.NewMessageHandler(), Partition: map[string]bool{},
		stallHeal: make(chan struct{}),
	}
	w.Net = f
	w.AddProvider(f.events)
	return f
}

func pairKey(a, b string) string {
	if a > b {
		a, b = b, a
	}
	return a + "~" + b
}

func (f *Fabric) Name(p peer.ID) string {
	f.mu.Lock()
	defer f.mu.Unlock()
	if n, ok := f.names[p]; ok {
		return n
	}
	return "?" + p.String()
}

// NewHost creates a host named name; the peer ID is derived from the name.
func (f *Fabric) NewHost(name string) *SimHost {
	id := peer.ID("sim-peer-" + name)
	h := &SimHost{f: f, id: id, name: name, cm: &SimConnManager{w: f.w, node: name, prot: map[string]int{}}}
	f.mu.Lock()
	f.hosts[id] = h
	f.names[id] = name
	f.mu.Unlock()
	return h
}

// Heal releases stalled writes and removes partitions.
func (f *Fabric) Heal() {
	f.mu.Lock()
	f.Partition = map[string]bool{}
	select {
	case <-f.stallHeal:
	default:
		close(f.stallHeal)
	}
	f.mu.Unlock()
}

func (f *Fabric) events() []*Event {
	f.mu.Lock()
	defer f.mu.Unlock()
	var evs []*Event
	for _, s := range f.streams {
		s := s
		s.mu.Lock()
		has := len(s.inflight) > 0 && !s.reset
		s.mu.Unlock()
		if has {
			outs := []string{"ok"}
			if f.Fragment {
				outs = append(outs, "frag")
			}
			outs = append(outs, f.DeliverFaults...)
			evs = append(evs, Inject("deliver", "deliver|"+s.id, func(o string) { s.deliver(o) }, outs...))
		}
	}
	for _, n := range f.pending {
		n := n
		evs = append(evs, Inject("notify", n.key, func(string) { f.fireNotify(n) }))
	}
	if f.DisconnectFaults && !f.w.draining {
		keys := make([]string, 0, len(f.connected))
		for k, c := range f.connected {
			if c {
				keys = append(keys, k)
			}
		}
		sort.Strings(keys)
		for _, k := range keys {
			k := k
			evs = append(evs, Inject("disconnect", "disconnect|"+k, func(string) { f.disconnect(k) }))
		}
	}
	return evs
}

func (f *Fabric) fireNotify(n *pendingNotify) {
	f.mu.Lock()
	for i, p := range f.pending {
		if p == n {
			f.pending = append(f.pending[:i], f.pending[i+1:]...)
			break
		}
	}
	f.mu.Unlock()
	go func() {
		n.at.notifyAll(n.other, n.connected)
	}()
}

// disconnect breaks the connection of a pair: all streams are reset and both
// sides get a (late) Disconnected notification.
func (f *Fabric) disconnect(pair string) {
	f.w.Fault("disconnect")
	f.mu.Lock()
	f.connected[pair] = false
	var ss []*SimStream
	for _, s := range f.streams {
		if pairKey(s.from.name, s.to.name) == pair {
			ss = append(ss, s)
		}
	}
	var a, b *SimHost
	for _, h := range f.hosts {
		for _, h2 := range f.hosts {
			if h.name < h2.name && pairKey(h.name, h2.name) == pair {
				a, b = h, h2
			}
		}
	}
	if a != nil {
		f.notifySeq++
		f.pending = append(f.pending, &pendingNotify{key: fmt.Sprintf("notify|%s|disc|%s#%03d", a.name, b.name, f.notifySeq), at: a, other: b.id})
		f.notifySeq++
		f.pending = append(f.pending, &pendingNotify{key: fmt.Sprintf("notify|%s|disc|%s#%03d", b.name, a.name, f.notifySeq), at: b, other: a.id})
	}
	f.mu.Unlock()
	for _, s := range ss {
		s.doReset("connection lost")
	}
}

// SimHost implements the part of host.Host that network/libp2p_impl.go uses.
type SimHost struct {
	host.Host // nil: anything not overridden panics, which would show a missed seam
	f         *Fabric
	id        peer.ID
	name      string
	cm        *SimConnManager
	mu        sync.Mutex
	handlers  map[protocol.ID]network.StreamHandler
	notifiees []network.Notifiee
	down      bool
}

func (h *SimHost) ID() peer.ID { return h.id }

func (h *SimHost) SetStreamHandler(pid protocol.ID, handler network.StreamHandler) {
	h.mu.Lock()
	if h.handlers == nil {
		h.handlers = map[protocol.ID]network.StreamHandler{}
	}
	h.handlers[pid] = handler
	h.mu.Unlock()
}

func (h *SimHost) ConnManager() connmgr.ConnManager { return h.cm }

type simNetwork struct {
	network.Network
	h *SimHost
}

func (n *simNetwork) Notify(nf network.Notifiee) {
	n.h.mu.Lock()
	n.h.notifiees = append(n.h.notifiees, nf)
	n.h.mu.Unlock()
}

func (h *SimHost) Network() network.Network { return &simNetwork{h: h} }

func (h *SimHost) notifyAll(other peer.ID, connected bool) {
	h.mu.Lock()
	nfs := append([]network.Notifiee(nil), h.notifiees...)
	down := h.down
	h.mu.Unlock()
	if down {
		return
	}
	c := &simConn{local: h.id, remote: other}
	for _, nf := range nfs {
		if connected {
			h.f.w.Effect("notify %s connected %s", h.name, h.f.Name(other))
			nf.Connected(nil, c)
		} else {
			h.f.w.Effect("notify %s disconnected %s", h.name, h.f.Name(other))
			nf.Disconnected(nil, c)
		}
	}
}

// SetDown marks a host as crashed: no handlers run, connects to it fail.
func (h *SimHost) SetDown(down bool) {
	h.mu.Lock()
	h.down = down
	h.mu.Unlock()
}

func (h *SimHost) Connect(ctx context.Context, pi peer.AddrInfo) error {
	return h.connect(ctx, pi.ID)
}

func (h *SimHost) connect(ctx context.Context, p peer.ID) error {
	f := h.f
	f.mu.Lock()
	dst := f.hosts[p]
	dname := f.names[p]
	if dst == nil {
		f.mu.Unlock()
		return fmt.Errorf("sim: no route to %s", p)
	}
	pk := pairKey(h.name, dname)
	if f.connected[pk] && !f.Partition[pk] {
		f.mu.Unlock()
		return nil
	}
	outs := append([]string{"ok"}, f.ConnectFaults...)
	stalledDial := f.StalledDials[h.name+">"+dname]
	f.mu.Unlock()
	if stalledDial {
		// the peer cannot be reached and the dial does not come back (until heal, or the caller's context ends)
		f.w.Probe("dial-stalled-for-good")
		f.w.Effect("dial %s>%s stalls", h.name, dname)
		select {
		case <-ctx.Done():
			return ctx.Err()
		case <-f.stallHeal:
		}
		return errors.New("sim: dial failed")
	}
	o := f.w.Park("connect", "connect|"+h.name+">"+dname, outs...)
	switch o {
	case "abort":
		return errors.New("sim: aborted")
	case "fail":
		return errors.New("sim: dial failed")
	case "stall":
		select {
		case <-ctx.Done():
			return ctx.Err()
		case <-f.stallHeal:
		}
	}
	f.mu.Lock()
	part := f.Partition[pk]
	dst.mu.Lock()
	ddown := dst.down
	dst.mu.Unlock()
	if part || ddown {
		f.mu.Unlock()
		return errors.New("sim: dial failed (partitioned or peer down)")
	}
	already := f.connected[pk]
	f.connected[pk] = true
	f.mu.Unlock()
	if !already {
		// libp2p notifies both ends before the connection carries streams
		h.notifyAll(p, true)
		dst.notifyAll(h.id, true)
	}
	return nil
}

func (h *SimHost) NewStream(ctx context.Context, p peer.ID, pids ...protocol.ID) (network.Stream, error) {
	f := h.f
	if err := h.connect(ctx, p); err != nil {
		return nil, err
	}
	if f.GateNewStream {
		o := f.w.Park("newstream", "newstream|"+h.name+">"+f.Name(p), "ok", "fail")
		if o != "ok" {
			return nil, errors.New("sim: new stream failed")
		}
	}
	f.mu.Lock()
	dst := f.hosts[p]
	base := h.name + ">" + dst.name
	n := f.streamSeq[base]
	f.streamSeq[base] = n + 1
	var pid protocol.ID
	if len(pids) > 0 {
		pid = pids[0]
	}
	s := &SimStream{f: f, id: fmt.Sprintf("%s|s%02d", base, n), from: h, to: dst, proto: pid, wake: make(chan struct{}, 1), resetCh: make(chan struct{})}
	f.streams = append(f.streams, s)
	f.mu.Unlock()
	dst.mu.Lock()
	handler := dst.handlers[pid]
	ddown := dst.down
	dst.mu.Unlock()
	if handler == nil || ddown {
		s.doReset("no handler")
		return nil, errors.New("sim: protocol not supported")
	}
	go handler(&readEnd{s})
	return &writeEnd{s}, nil
}

type simConn struct {
	network.Conn
	local, remote peer.ID
}

func (c *simConn) RemotePeer() peer.ID { return c.remote }
func (c *simConn) LocalPeer() peer.ID  { return c.local }

// SimStream is one unidirectional libp2p stream (graphsync only ever writes on
// the opener's side and reads on the acceptor's side).
type SimStream struct {
	f        *Fabric
	id       string
	from, to *SimHost
	proto    protocol.ID

	mu        sync.Mutex
	inflight  [][]byte // nil entry = EOF marker
	inflightW []*WireMsg
	readable  bytes.Buffer
	eof       bool
	reset     bool
	wake      chan struct{}
	resetCh   chan struct{}
	wdeadline time.Time
	rdeadline time.Time
	nmsg      int
}

func (s *SimStream) signal() {
	select {
	case s.wake <- struct{}{}:
	default:
	}
}

func (f *Fabric) noteLost() {
	f.mu.Lock()
	f.LostInFlight++
	f.mu.Unlock()
}

func (f *Fabric) noteReset(id, why string) {
	f.mu.Lock()
	if f.Resets == nil {
		f.Resets = map[string]string{}
	}
	if _, ok := f.Resets[id]; !ok {
		f.Resets[id] = why
	}
	f.mu.Unlock()
}

// ResetWhy reports why a stream was reset ("" = it was not).
func (f *Fabric) ResetWhy(id string) string {
	f.mu.Lock()
	defer f.mu.Unlock()
	return f.Resets[id]
}

func (s *SimStream) doReset(why string) {
	s.mu.Lock()
	if !s.reset {
		s.reset = true
		for _, b := range s.inflight {
			if b != nil {
				// bytes the writer was told had been written are gone: a message loss
				s.f.noteLost()
				break
			}
		}
		s.inflight = nil
		close(s.resetCh)
		s.f.noteReset(s.id, why)
		s.f.w.Effect("stream %s reset (%s)", s.id, why)
	}
	s.mu.Unlock()
	s.signal()
}

func (s *SimStream) deliver(outcome string) {
	s.mu.Lock()
	if s.reset || len(s.inflight) == 0 {
		s.mu.Unlock()
		return
	}
	chunk := s.inflight[0]
	switch {
	case outcome == "drop":
		s.mu.Unlock()
		s.doReset("dropped in flight")
		return
	case chunk == nil:
		s.inflight = s.inflight[1:]
		s.eof = true
		s.f.w.Effect("deliver %s EOF", s.id)
	case outcome == "frag" && len(chunk) > 1:
		k := 1 + s.f.w.Tape.Draw(len(chunk)-1)
		s.readable.Write(chunk[:k])
		s.inflight[0] = chunk[k:]
		s.f.w.Effect("deliver %s %d bytes (fragment)", s.id, k)
	default:
		s.inflight = s.inflight[1:]
		s.readable.Write(chunk)
		if len(s.inflightW) > 0 {
			s.inflightW[0].Delivered = s.f.w.Step
			s.inflightW = s.inflightW[1:]
		}
		s.f.w.Effect("deliver %s %d bytes", s.id, len(chunk))
	}
	s.mu.Unlock()
	s.signal()
}

type timeoutErr struct{}

func (timeoutErr) Error() string   { return "sim: i/o deadline exceeded" }
func (timeoutErr) Timeout() bool   { return true }
func (timeoutErr) Temporary() bool { return true }
func (timeoutErr) Is(t error) bool { return t == os.ErrDeadlineExceeded }

// writeEnd is what the opener of a stream holds.
type writeEnd struct{ *SimStream }

func (e *writeEnd) Protocol() protocol.ID { return e.proto }
func (e *writeEnd) Conn() network.Conn    { return &simConn{local: e.from.id, remote: e.to.id} }
func (e *writeEnd) ID() string            { return e.id }
func (e *writeEnd) SetDeadline(t time.Time) error {
	return e.SetWriteDeadline(t)
}
func (e *writeEnd) SetReadDeadline(t time.Time) error { return nil }
func (e *writeEnd) SetWriteDeadline(t time.Time) error {
	e.mu.Lock()
	e.wdeadline = t
	e.mu.Unlock()
	return nil
}
func (e *writeEnd) Read(p []byte) (int, error) { return 0, io.EOF }
func (e *writeEnd) CloseRead() error           { return nil }
func (e *writeEnd) CloseWrite() error          { return e.Close() }
func (e *writeEnd) SetProtocol(protocol.ID) error {
	return nil
}
func (e *writeEnd) Stat() network.Stats { return network.Stats{} }
func (e *writeEnd) Scope() network.StreamScope {
	return nil
}
func (e *writeEnd) ResetWithError(network.StreamErrorCode) error { return e.Reset() }

func (e *writeEnd) Close() error {
	e.mu.Lock()
	if !e.reset {
		e.inflight = append(e.inflight, nil)
		e.f.w.Effect("stream %s closed by writer", e.id)
	}
	e.mu.Unlock()
	return nil
}

func (e *writeEnd) Reset() error {
	e.doReset("reset by writer")
	return nil
}

func (e *writeEnd) Write(b []byte) (int, error) {
	s := e.SimStream
	f := s.f
	s.mu.Lock()
	if s.reset {
		s.mu.Unlock()
		return 0, network.ErrReset
	}
	dl := s.wdeadline
	s.mu.Unlock()
	f.mu.Lock()
	part := f.Partition[pairKey(s.from.name, s.to.name)]
	outs := append([]string{"ok"}, f.SendFaults...)
	if f.SendFaultPairs != nil && !f.SendFaultPairs[s.from.name+">"+s.to.name] {
		outs = outs[:1]
	}
	stalledPair := f.StalledPairs[s.from.name+">"+s.to.name]
	f.mu.Unlock()
	o := f.w.Park("send", "send|"+s.id, outs...)
	if part && o == "ok" {
		o = "fail"
	}
	if stalledPair && o == "ok" {
		f.w.Probe("send-stalled-for-good")
		var timer <-chan time.Time
		if !dl.IsZero() {
			t := time.NewTimer(time.Until(dl))
			defer t.Stop()
			timer = t.C
		}
		select {
		case <-timer:
			f.w.Effect("send %s timed out", s.id)
			return 0, timeoutErr{}
		case <-s.resetCh:
			return 0, network.ErrReset
		}
	}
	cp := append([]byte(nil), b...)
	switch o {
	case "abort":
		return 0, errors.New("sim: aborted")
	case "fail":
		s.doReset("send failed")
		return 0, errors.New("sim: write failed")
	case "acklost":
		s.accept(cp)
		return 0, errors.New("sim: write failed after the peer received the data")
	case "stall":
		var timer <-chan time.Time
		if !dl.IsZero() {
			t := time.NewTimer(time.Until(dl))
			defer t.Stop()
			timer = t.C
		}
		f.w.Probe("send-stalled")
		select {
		case <-timer:
			f.w.Effect("send %s timed out", s.id)
			return 0, timeoutErr{}
		case <-s.resetCh:
			return 0, network.ErrReset
		case <-f.stallHeal:
		}
	}
	s.mu.Lock()
	if s.reset {
		s.mu.Unlock()
		return 0, network.ErrReset
	}
	s.mu.Unlock()
	s.accept(cp)
	return len(b), nil
}

func (s *SimStream) accept(b []byte) {
	f := s.f
	wm := &WireMsg{Step: f.w.Step, From: s.from.name, To: s.to.name, Stream: s.id, Raw: b}
	wm.Msg, wm.Err = f.handler.FromNet(s.from.id, bytes.NewReader(b))
	s.mu.Lock()
	s.inflight = append(s.inflight, b)
	s.inflightW = append(s.inflightW, wm)
	s.nmsg++
	s.mu.Unlock()
	f.mu.Lock()
	f.Wire = append(f.Wire, wm)
	f.mu.Unlock()
	if wm.Err != nil {
		f.w.Effect("wire %s undecodable %d bytes: %v", s.id, len(b), wm.Err)
	} else {
		f.w.Effect("wire %s %s", s.id, SummarizeMsg(f, wm.Msg))
	}
}

// InjectRaw lets a scripted peer put arbitrary bytes on a stream it opened.
func (e *writeEnd) InjectRaw(b []byte) {
	e.accept(append([]byte(nil), b...))
}

// readEnd is what the acceptor's stream handler holds.
type readEnd struct{ *SimStream }

func (e *readEnd) Protocol() protocol.ID { return e.proto }
func (e *readEnd) Conn() network.Conn    { return &simConn{local: e.to.id, remote: e.from.id} }
func (e *readEnd) ID() string            { return e.id }
func (e *readEnd) SetDeadline(t time.Time) error {
	return e.SetReadDeadline(t)
}
func (e *readEnd) SetWriteDeadline(t time.Time) error { return nil }
func (e *readEnd) SetReadDeadline(t time.Time) error {
	e.mu.Lock()
	e.rdeadline = t
	e.mu.Unlock()
	return nil
}
func (e *readEnd) Write(p []byte) (int, error) { return 0, errors.New("sim: read end") }
func (e *readEnd) CloseRead() error            { return nil }
func (e *readEnd) CloseWrite() error           { return nil }
func (e *readEnd) Close() error                { return nil }
func (e *readEnd) SetProtocol(protocol.ID) error {
	return nil
}
func (e *readEnd) Stat() network.Stats { return network.Stats{} }
func (e *readEnd) Scope() network.StreamScope {
	return nil
}
func (e *readEnd) ResetWithError(network.StreamErrorCode) error { return e.Reset() }
func (e *readEnd) Reset() error {
	e.doReset("reset by reader")
	return nil
}

func (e *readEnd) Read(p []byte) (int, error) {
	s := e.SimStream
	for {
		s.mu.Lock()
		if s.reset {
			s.mu.Unlock()
			return 0, network.ErrReset
		}
		if s.readable.Len() > 0 {
			n, _ := s.readable.Read(p)
			s.mu.Unlock()
			return n, nil
		}
		if s.eof {
			s.mu.Unlock()
			return 0, io.EOF
		}
		dl := s.rdeadline
		s.mu.Unlock()
		s.f.mu.Lock()
		if s.f.StalledPairs[s.from.name+">"+s.to.name] {
			// the far end of a stalled connection is not reading at all, so it does
			// not time the stream out either
			dl = time.Time{}
		}
		s.f.mu.Unlock()
		if dl.IsZero() {
			select {
			case <-s.wake:
			case <-s.resetCh:
			}
			continue
		}
		d := time.Until(dl)
		if d <= 0 {
			return 0, timeoutErr{}
		}
		t := time.NewTimer(d)
		select {
		case <-s.wake:
			t.Stop()
		case <-s.resetCh:
			t.Stop()
		case <-t.C:
			s.f.w.Effect("read %s timed out", s.id)
			return 0, timeoutErr{}
		}
	}
}

// SimConnManager records Protect/Unprotect.
type SimConnManager struct {
	connmgr.ConnManager
	w    *World
	node string
	mu   sync.Mutex
	prot map[string]int
}

func (c *SimConnManager) Protect(p peer.ID, tag string) {
	c.mu.Lock()
	c.prot[string(p)+"|"+tag]++
	c.mu.Unlock()
	c.w.Effect("protect %s %s %s", c.node, c.w.Net.Name(p), shortTag(tag))
}

func (c *SimConnManager) Unprotect(p peer.ID, tag string) bool {
	c.mu.Lock()
	k := string(p) + "|" + tag
	if c.prot[k] > 0 {
		delete(c.prot, k)
	}
	n := 0
	for kk := range c.prot {
		if len(kk) > len(string(p)) && kk[:len(string(p))] == string(p) {
			n++
		}
	}
	c.mu.Unlock()
	c.w.Effect("unprotect %s %s %s", c.node, c.w.Net.Name(p), shortTag(tag))
	return n > 0
}

// Protected returns the tags still protected, sorted.
func (c *SimConnManager) Protected() []string {
	c.mu.Lock()
	defer c.mu.Unlock()
	var out []string
	for k := range c.prot {
		out = append(out, k)
	}
	sort.Strings(out)
	return out
}

func shortTag(t string) string {
	if len(t) > 18 {
		return t[:18]
	}
	return t
}
