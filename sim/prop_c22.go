package sim

import (
	"context"
	"fmt"
	"io"
	"strings"

	"github.com/ipfs/go-cid"
	"github.com/ipld/go-ipld-prime"
	"github.com/ipld/go-ipld-prime/codec"
	"github.com/ipld/go-ipld-prime/datamodel"
	"github.com/ipld/go-ipld-prime/linking"
	"github.com/ipld/go-ipld-prime/node/basicnode"
	"github.com/libp2p/go-libp2p/core/peer"

	"github.com/ipfs/go-graphsync"
)

// c22: a panic in per-request user code fails only that request.
type c22 struct {
	dagV, dagS *DAG // victim's and sibling's DAG
	a, b       *Node
	victim     *Req
	sibling    *Req
	fn         string // read | commit | chooser | reifier | decoder
	side       string // requestor | responder
	at         int    // n-th invocation (1-based) of the function for the victim
	count      int
	fired      bool
	noCB       bool // the node whose code panics has no panic callback configured (the default)
	// A reifier that needs a further block to build its view (as a sharded-directory ADL does) loads it through the
	// link system it was handed, i.e. through the traversal, and panics when it cannot have it. While that load is
	// outstanding the victim may be cancelled by its caller or, at the responder, by the operator.
	nested    bool
	inNested  bool
	atPoint   bool
	cancelHow string // "" | ctx | api | bcancel
	cancelled bool
}

func newC22() Scenario { return &c22{} }

func (s *c22) Name() string     { return "panic/" + s.fn + "/" + s.side }
func (s *c22) Property() string { return "C22" }

func (s *c22) Build(w *World) {
	t := w.Tape
	drawProfile(w)
	s.dagV = GenDAG(t, GenCfg{MaxBlocks: 3 + t.Draw(8), MaxDepth: 2 + t.Draw(3), BlockPad: 7})
	s.dagS = GenDAG(t, GenCfg{MaxBlocks: 3 + t.Draw(8), MaxDepth: 2 + t.Draw(3), BlockPad: 13})
	// the injection point is enumerated over runs
	s.side = []string{"requestor", "responder"}[t.Draw(2)]
	fns := []string{"read", "chooser", "reifier", "decoder"}
	if s.side == "requestor" {
		fns = append(fns, "commit")
	}
	s.fn = fns[t.Draw(len(fns))]
	s.at = 1 + t.Draw(6)
	cfg := NodeCfg{GateReads: true, GateCommits: true}
	s.noCB = t.Chance(400)
	acfg, bcfg := cfg, cfg
	if s.noCB {
		if s.side == "requestor" {
			acfg.NoPanicCB = true
		} else {
			bcfg.NoPanicCB = true
		}
	}
	s.a = NewNode(w, "A", acfg)
	s.b = NewNode(w, "B", bcfg)
	for _, d := range []*DAG{s.dagV, s.dagS} {
		for _, c := range d.Order {
			s.b.Store.Put(c, d.Blocks[c])
		}
	}
	// a requestor-side read needs something to read locally
	if s.side == "requestor" && s.fn == "read" {
		for i, c := range s.dagV.Order {
			if i%2 == 0 {
				s.a.Store.Put(c, s.dagV.Blocks[c])
			}
		}
	}
	s.victim = s.a.NewReq("victim", s.b, s.dagV.Root, AllSelector(10))
	s.sibling = s.a.NewReq("sibling", s.b, s.dagS.Root, AllSelector(10))
	node := s.a
	if s.side == "responder" {
		node = s.b
	}
	inVictim := map[cid.Cid]bool{}
	for _, c := range s.dagV.Order {
		inVictim[c] = true
	}
	if s.fn == "reifier" && t.Chance(500) {
		s.nested = true
		if t.Chance(700) {
			hows := []string{"ctx", "api"}
			if s.side == "responder" {
				hows = []string{"ctx", "bcancel", "bcancel"}
			}
			s.cancelHow = hows[t.Draw(len(hows))]
		}
	}
	hit := func(what string) {
		s.count++
		if s.count == s.at && !s.fired {
			s.fired = true
			w.Fault("panic:" + s.fn + "/" + s.side)
			w.Effect("inject PANIC in %s on %s (call %d)", what, node.Name, s.count)
			panic("sim: injected panic in " + what)
		}
	}
	switch s.fn {
	case "read":
		node.Store.OnRead = func(c cid.Cid) {
			if inVictim[c] {
				hit("storage read")
			}
		}
	case "commit":
		node.Store.OnCommit = func(c cid.Cid) {
			if inVictim[c] {
				hit("storage commit")
			}
		}
	case "chooser":
		chooser := func(l datamodel.Link, lc linking.LinkContext) (datamodel.NodePrototype, error) {
			hit("prototype chooser")
			return basicnode.Prototype.Any, nil
		}
		if s.side == "requestor" {
			node.OnOutgoingRequest = func(p peer.ID, r graphsync.RequestData, a graphsync.OutgoingRequestHookActions) {
				if r.ID() == s.victim.ID {
					a.UseLinkTargetNodePrototypeChooser(chooser)
				}
			}
		} else {
			node.OnIncomingRequest = func(p peer.ID, r graphsync.RequestData, a graphsync.IncomingRequestHookActions) {
				if r.ID() == s.victim.ID {
					a.UseLinkTargetNodePrototypeChooser(chooser)
				}
			}
		}
	case "reifier", "decoder":
		// per-request link system through a persistence option
		lsys := node.Store.LinkSystem()
		if s.fn == "reifier" {
			lsys.NodeReifier = func(lc linking.LinkContext, n datamodel.Node, ls *linking.LinkSystem) (datamodel.Node, error) {
				if s.inNested {
					return n, nil
				}
				if s.nested && s.count+1 == s.at && !s.fired {
					s.inNested, s.atPoint = true, true
					w.Effect("reifier on %s asks the traversal for a further block", node.Name)
					_, err := ls.Load(lc, s.dagV.Root, basicnode.Prototype.Any)
					s.inNested, s.atPoint = false, false
					if err != nil {
						w.Effect("reifier on %s: further block: %s", node.Name, errText(err))
					} else {
						w.Effect("reifier on %s: further block loaded", node.Name)
					}
					if err != nil && s.cancelled {
						w.Probe("c22-panic-after-cancel")
					}
				}
				hit("node reifier")
				return n, nil
			}
		} else {
			inner := lsys.DecoderChooser
			lsys.DecoderChooser = func(l datamodel.Link) (codec.Decoder, error) {
				d, err := inner(l)
				if err != nil {
					return nil, err
				}
				return func(na datamodel.NodeAssembler, r io.Reader) error {
					hit("codec decode")
					return d(na, r)
				}, nil
			}
		}
		if err := node.GS.RegisterPersistenceOption("victim-store", lsys); err != nil {
			panic(err)
		}
		if s.side == "requestor" {
			node.OnOutgoingRequest = func(p peer.ID, r graphsync.RequestData, a graphsync.OutgoingRequestHookActions) {
				if r.ID() == s.victim.ID {
					a.UsePersistenceOption("victim-store")
				}
			}
		} else {
			node.OnIncomingRequest = func(p peer.ID, r graphsync.RequestData, a graphsync.IncomingRequestHookActions) {
				if r.ID() == s.victim.ID {
					a.UsePersistenceOption("victim-store")
				}
			}
		}
	}
	w.AddProvider(func() []*Event {
		var evs []*Event
		for _, r := range []*Req{s.victim, s.sibling} {
			if !r.Issued {
				evs = append(evs, r.IssueEvent())
			}
		}
		// (a node notices a cancel between blocks: for the further load to be the one that is cut short, the cancel
		// has to arrive while the block whose reifier asks for it is still being fetched)
		if s.cancelHow != "" && !s.cancelled && s.victim.Issued && !s.victim.Done() && !s.fired && (s.atPoint || s.count+1 == s.at) {
			evs = append(evs, Inject("api", "api|cancel-victim|"+s.cancelHow, func(string) {
				s.cancelled = true
				w.Effect("act cancel victim (%s)", s.cancelHow)
				switch s.cancelHow {
				case "ctx":
					s.victim.Cancel()
				case "api":
					go func() { _ = s.a.GS.Cancel(context.Background(), s.victim.ID) }()
				case "bcancel":
					go func() { _ = s.b.GS.Cancel(context.Background(), s.victim.ID) }()
				}
			}))
		}
		return evs
	})
}

func (s *c22) Describe(w *World) string {
	return fmt.Sprintf("panic in %s on the %s at call %d (fired=%v) nested=%v cancel=%s/%v callback=%v; victim dag=%d sibling dag=%d", s.fn, s.side, s.at, s.fired, s.nested, s.cancelHow, s.cancelled, !s.noCB, len(s.dagV.Order), len(s.dagS.Order))
}

func (s *c22) Done(w *World) bool            { return s.victim.Done() && s.sibling.Done() }
func (s *c22) Heal(w *World)                 { w.Net.Heal() }
func (s *c22) Invariant(w *World) *Violation { return nil }

func (s *c22) Final(w *World) *Violation {
	full := func(d *DAG) Resolver {
		return func(path string, c cid.Cid) ([]byte, bool) { b, ok := d.Blocks[c]; return b, ok }
	}
	sig := s.fn + "/" + s.side
	// R3: the sibling completes as if nothing had happened
	if !s.sibling.Done() {
		return &Violation{Property: "C22", Rule: "R3", Signature: "sibling-stuck:" + sig, Detail: "the other request did not finish"}
	}
	ref := Ref(s.dagS.Root, AllSelector(10), full(s.dagS), 0)
	if i, ok := visitsEqual(s.sibling.Visits, ref.Visits); !ok || len(s.sibling.Errs) > 0 {
		return &Violation{Property: "C22", Rule: "R3", Signature: "sibling-affected:" + sig, Detail: fmt.Sprintf("the other request differs at visit %d (got %d want %d), errors %v", i, len(s.sibling.Visits), len(ref.Visits), errStrings(s.sibling.Errs))}
	}
	if !s.fired {
		return nil
	}
	// R2: the victim ends, with an error, and the callback saw the panic
	if !s.victim.Done() {
		return &Violation{Property: "C22", Rule: "R2", Signature: "victim-stuck:" + sig, Detail: "the request whose code panicked never terminated"}
	}
	respFailed := false
	if s.side == "responder" && len(s.victim.Errs) == 0 {
		// The requestor finishes as soon as its own traversal has every block; a panic at the responder after the
		// last block was sent (in the reifier of that block, say) is reported in a terminal status the requestor no
		// longer waits for. The error the property asks for is then the failure status of the response.
		out := ResponderOutput(w.Net.WireFor("B", "A"), s.victim.ID)
		if n := len(out.Statuses); n > 0 && out.Statuses[n-1].IsFailure() {
			respFailed = true
			w.Probe("c22-responder-failed-after-requestor-had-everything")
		}
	}
	if len(s.victim.Errs) == 0 && !respFailed && !(s.fn == "read" && s.side == "requestor") {
		return &Violation{Property: "C22", Rule: "R2", Signature: "victim-no-error:" + sig, Detail: fmt.Sprintf("the panic was not turned into an error for the request: it ended without any error (%d nodes delivered)", len(s.victim.Visits))}
	}
	if len(s.victim.Errs) == 0 && !respFailed {
		// the only way to end without an error is to have lost nothing: a panicking
		// local read counts as a local miss and the block may come from the responder
		vref := Ref(s.dagV.Root, AllSelector(10), full(s.dagV), 0)
		if i, ok := visitsEqual(s.victim.Visits, vref.Visits); !ok {
			return &Violation{Property: "C22", Rule: "R2", Signature: "victim-no-error:" + sig, Detail: fmt.Sprintf("the request whose code panicked ended without any error but its result differs from the reference at visit %d (got %d want %d)", i, len(s.victim.Visits), len(vref.Visits))}
		}
		for _, l := range vref.Loads {
			if !s.a.Store.Has(l.Cid) {
				return &Violation{Property: "C22", Rule: "R2", Signature: "victim-no-error-block-not-stored:" + sig, Detail: fmt.Sprintf("the request ended without any error but block %s is not in the requestor's store", shortCid(l.Cid))}
			}
		}
	}
	node := s.a
	if s.side == "responder" {
		node = s.b
	}
	got := false
	for _, p := range node.Panics {
		if strings.Contains(p, "sim: injected panic") {
			got = true
		}
	}
	if !got && !s.noCB {
		return &Violation{Property: "C22", Rule: "R2", Signature: "callback-not-called:" + sig, Detail: fmt.Sprintf("panic callback on %s saw %v", node.Name, node.Panics)}
	}
	return nil
}

var _ ipld.Node
