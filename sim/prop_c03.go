package sim

import (
	"fmt"
	"math"

	"github.com/ipfs/go-cid"
	"github.com/ipld/go-ipld-prime"

	"github.com/ipfs/go-graphsync"
	"github.com/ipfs/go-graphsync/cidset"
	"github.com/ipfs/go-graphsync/dedupkey"
	"github.com/ipfs/go-graphsync/donotsendfirstblocks"
	gsmsg "github.com/ipfs/go-graphsync/message"
)

// c03Req is one scripted request.
type c03Req struct {
	id     graphsync.RequestID
	sel    ipld.Node
	desc   string
	skip   int64
	ignore *cid.Set
	dedup  string
	root   cid.Cid
}

// c03: one real responder, one scripted requestor; the wire is the observable.
type c03 struct {
	dag   *DAG
	rs    map[cid.Cid]bool
	b     *Node
	p     *Scripted
	reqs  []*c03Req
	sc    *Script
	descr string
}

func newC03() Scenario { return &c03{} }

func (s *c03) Name() string     { return "responder-output/scripted-requestor" }
func (s *c03) Property() string { return "C03" }

func (s *c03) Build(w *World) {
	t := w.Tape
	drawProfile(w)
	s.dag = GenDAG(t, GenCfg{MaxBlocks: 3 + t.Draw(18), MaxDepth: 2 + t.Draw(4), BlockPad: []int{0, 0, 40, 600}[t.Draw(4)], Share: []int{0, 100, 300}[t.Draw(3)], Empty: []int{0, 0, 80}[t.Draw(3)], Alias: []int{0, 0, 100}[t.Draw(3)]})
	s.rs = map[cid.Cid]bool{}
	missPm := []int{0, 0, 100, 300}[t.Draw(4)]
	for _, c := range s.dag.Order {
		s.rs[c] = !t.Chance(missPm)
	}
	if t.Chance(60) {
		s.rs[s.dag.Root.Cid] = false
	}
	s.b = NewNode(w, "B", NodeCfg{GateReads: true, Validate: true})
	populate(s.b, s.dag, s.rs)
	s.p = NewScripted(w, "P")
	nreq := 1 + t.Draw(2)
	s.sc = NewScript(w, "P")
	for i := 0; i < nreq; i++ {
		r := &c03Req{id: ReqID(fmt.Sprintf("c03-%d", i)), root: s.dag.Root.Cid}
		r.sel, r.desc = GenSelector(t, 8)
		r.sel, _ = CanonicalSelector(r.sel)
		var exts []graphsync.ExtensionData
		// the full traversal length, for skip counts at and beyond the end
		ref := Ref(s.dag.Root, r.sel, s.resolver(), 0)
		if t.Chance(450) {
			cands := []int64{1, 2, int64(len(ref.Loads)) - 1, int64(len(ref.Loads)), int64(len(ref.Loads)) + 3, 3}
			r.skip = cands[t.Draw(len(cands))]
			if r.skip < 0 {
				r.skip = 0
			}
			if r.skip > 0 || t.Chance(300) {
				exts = append(exts, graphsync.ExtensionData{Name: graphsync.ExtensionsDoNotSendFirstBlocks, Data: donotsendfirstblocks.EncodeDoNotSendFirstBlocks(r.skip)})
			}
		}
		if t.Chance(400) {
			r.ignore = cid.NewSet()
			for _, c := range s.dag.Order {
				if t.Chance(350) {
					r.ignore.Add(c)
				}
			}
			exts = append(exts, graphsync.ExtensionData{Name: graphsync.ExtensionDoNotSendCIDs, Data: cidset.EncodeCidSet(r.ignore)})
		}
		// two requests never share a dedup scope here (C19/C20 cover sharing)
		if i > 0 || t.Chance(300) {
			r.dedup = fmt.Sprintf("scope-%d", i)
			d, _ := dedupkey.EncodeDedupKey(r.dedup)
			exts = append(exts, graphsync.ExtensionData{Name: graphsync.ExtensionDeDupByKey, Data: d})
		}
		s.reqs = append(s.reqs, r)
		req := gsmsg.NewRequest(r.id, r.root, r.sel, graphsync.Priority(math.MaxInt32-i), exts...)
		s.sc.Add(func() {
			s.p.Send(s.b.ID, gsmsg.NewMessage(map[graphsync.RequestID]gsmsg.GraphSyncRequest{r.id: req}, nil, nil))
		})
		s.descr += fmt.Sprintf("[%s skip=%d ignore=%v dedup=%q]", r.desc, r.skip, r.ignore != nil, r.dedup)
	}
}

func (s *c03) resolver() Resolver {
	return func(path string, c cid.Cid) ([]byte, bool) {
		if !s.rs[c] {
			return nil, false
		}
		return s.dag.Blocks[c], true
	}
}

func (s *c03) Describe(w *World) string {
	miss := 0
	for _, c := range s.dag.Order {
		if !s.rs[c] {
			miss++
		}
	}
	return fmt.Sprintf("dag=%d responder-missing=%d reqs=%s", len(s.dag.Order), miss, s.descr)
}

func terminalSeen(out RespOutput) bool {
	for _, st := range out.Statuses {
		if st.IsTerminal() {
			return true
		}
	}
	return false
}

func (s *c03) Done(w *World) bool {
	if !s.sc.Done() {
		return false
	}
	wire := w.Net.WireFor("B", "P")
	for _, r := range s.reqs {
		if !terminalSeen(ResponderOutput(wire, r.id)) {
			return false
		}
	}
	// and everything delivered
	for _, st := range w.Net.streams {
		st.mu.Lock()
		n := len(st.inflight)
		st.mu.Unlock()
		if n > 0 {
			return false
		}
	}
	return true
}

func (s *c03) Heal(w *World)                 { w.Net.Heal() }
func (s *c03) Invariant(w *World) *Violation { return nil }

func (s *c03) Final(w *World) *Violation {
	wire := w.Net.WireFor("B", "P")
	for _, r := range s.reqs {
		out := ResponderOutput(wire, r.id)
		ref := Ref(s.dag.Root, r.sel, s.resolver(), 0)
		if !terminalSeen(out) {
			return &Violation{Property: "C03", Rule: "R3", Signature: "no-terminal-status", Detail: fmt.Sprintf("request %s never got a terminal status; statuses %v", shortReq(r.id), out.Statuses)}
		}
		// R3 terminal status: exactly one, last
		for i, st := range out.Statuses {
			if st.IsTerminal() && i != len(out.Statuses)-1 {
				return &Violation{Property: "C03", Rule: "R3", Signature: "status-after-terminal", Detail: fmt.Sprintf("statuses %v", out.Statuses)}
			}
		}
		last := out.Statuses[len(out.Statuses)-1]
		if ref.RootMissing {
			if last != graphsync.RequestFailedContentNotFound {
				return &Violation{Property: "C03", Rule: "R3", Signature: "root-missing-status", Detail: fmt.Sprintf("root missing on the responder but final status %d", last)}
			}
			continue
		}
		// R1 metadata mirrors the traversal
		if len(out.Entries) != len(ref.Loads) {
			return &Violation{Property: "C03", Rule: "R1", Signature: "metadata-length", Detail: fmt.Sprintf("request %s: %d metadata entries, reference traversal loads %d links (%s)", shortReq(r.id), len(out.Entries), len(ref.Loads), r.desc)}
		}
		anyMissing := false
		sent := map[cid.Cid]bool{}
		// a block among the first `skip` links is one the requestor said it holds:
		// it is excluded wherever it occurs again, like a CID in do-not-send-cids
		skipped := map[cid.Cid]bool{}
		for _, e := range out.Entries {
			if int64(e.Index) <= r.skip && e.Action == graphsync.LinkActionPresent {
				skipped[e.Cid] = true
			}
		}
		for i, e := range out.Entries {
			l := ref.Loads[i]
			if !e.Cid.Equals(l.Cid) {
				return &Violation{Property: "C03", Rule: "R1", Signature: "metadata-order", Detail: fmt.Sprintf("entry %d is %s, reference loads %s at %q", i+1, shortCid(e.Cid), shortCid(l.Cid), l.Path)}
			}
			wantAct := graphsync.LinkActionPresent
			if !l.Found {
				wantAct = graphsync.LinkActionMissing
				anyMissing = true
			}
			if e.Action != wantAct {
				return &Violation{Property: "C03", Rule: "R1", Signature: "metadata-action", Detail: fmt.Sprintf("entry %d %s marked %s, want %s", i+1, shortCid(e.Cid), e.Action, wantAct)}
			}
			// R2 which entries carry block data
			wantBlock := l.Found && int64(e.Index) > r.skip && !skipped[e.Cid] && (r.ignore == nil || !r.ignore.Has(e.Cid)) && !sent[e.Cid]
			if wantBlock {
				sent[e.Cid] = true
				if !e.HasBlock {
					return &Violation{Property: "C03", Rule: "R2", Signature: "block-withheld", Detail: fmt.Sprintf("entry %d %s is present, beyond skip %d, not ignored, first occurrence, but its message carries no such block", i+1, shortCid(e.Cid), r.skip)}
				}
			}
		}
		// blocks that travelled must each be wanted by some entry of some request in that message
		// (checked per message below)
		wantLast := graphsync.RequestCompletedFull
		if anyMissing {
			wantLast = graphsync.RequestCompletedPartial
		}
		if last != wantLast {
			return &Violation{Property: "C03", Rule: "R3", Signature: "final-status", Detail: fmt.Sprintf("final status %d, want %d (missing links: %v)", last, wantLast, anyMissing)}
		}
	}
	// R2 (other direction): every block on the wire is justified by an entry in its own message
	for mi, wm := range wire {
		for _, b := range wm.Msg.Blocks() {
			ok := false
			for _, r := range s.reqs {
				out := ResponderOutput(wire, r.id)
				first := map[cid.Cid]int{}
				skipped := map[cid.Cid]bool{}
				for _, e := range out.Entries {
					if int64(e.Index) <= r.skip && e.Action == graphsync.LinkActionPresent {
						skipped[e.Cid] = true
					}
				}
				for _, e := range out.Entries {
					if e.Action == graphsync.LinkActionPresent && int64(e.Index) > r.skip && !skipped[e.Cid] && (r.ignore == nil || !r.ignore.Has(e.Cid)) {
						if _, seen := first[e.Cid]; !seen {
							first[e.Cid] = e.Msg
						}
					}
				}
				if m, has := first[b.Cid()]; has && m == mi {
					ok = true
				}
			}
			if !ok {
				return &Violation{Property: "C03", Rule: "R2", Signature: "unjustified-block", Detail: fmt.Sprintf("message %d carries block %s that no request's metadata in that message calls for (skipped, ignored, duplicate or foreign)", mi, shortCid(b.Cid()))}
			}
		}
	}
	return nil
}
