package sim

import (
	"context"
	"fmt"
	"reflect"

	"github.com/ipfs/go-cid"
	"github.com/ipld/go-ipld-prime"
	cidlink "github.com/ipld/go-ipld-prime/linking/cid"
	"github.com/libp2p/go-libp2p/core/peer"

	"github.com/ipfs/go-graphsync"
	"github.com/ipfs/go-graphsync/messagequeue"
	"github.com/ipfs/go-graphsync/notifications"
	"github.com/ipfs/go-graphsync/responsemanager/responseassembler"
)

// capHandler is the capturing PeerMessageHandler: every transaction builds into a fresh builder.
type capHandler struct{ n int }

func (h *capHandler) AllocateAndBuildMessage(p peer.ID, size uint64, fn func(*messagequeue.Builder)) {
	h.n++
	fn(messagequeue.NewBuilder(context.Background(), messagequeue.Topic(h.n)))
}

type nopSub struct{}

func (nopSub) OnNext(notifications.Topic, notifications.Event) {}
func (nopSub) OnClose(notifications.Topic)                     {}

type ltOp struct {
	kind    string // start | link | pause | finish | finisherr | clear
	req     int
	cid     int
	present bool
	key     string
	ignore  []int
	skip    int64
}

// c19: real peerLinkTracker + linktracker + responseBuilder through ResponseStream transactions.
type c19 struct {
	ra      *responseassembler.ResponseAssembler
	streams map[int]responseassembler.ResponseStream
	cids    []cid.Cid
	ops     []ltOp
	next    int
	viol    *Violation
	descr   string
	// model
	scopeOf  map[int]string
	skipOf   map[int]int64
	countOf  map[int]int64
	trav     map[int]map[int]bool // in-progress request -> CIDs it traversed (present)
	missing  map[int]bool
	started  map[int]bool
	finished map[int]bool
	peerOf   map[int]string
	tracker  any
}

func newC19() Scenario { return &c19{} }

func (s *c19) Name() string     { return "linktracker-histories" }
func (s *c19) Property() string { return "C19" }

func (s *c19) Build(w *World) {
	t := w.Tape
	w.Prof.Weights = map[string]int{"advance": 0}
	ctx, cancel := context.WithCancel(context.Background())
	w.cleanup = append(w.cleanup, cancel)
	s.ra = responseassembler.New(ctx, &capHandler{})
	// "keeps no tracking state": the tracker's internal tables are read (lengths
	// only, by reflection) whenever a request stops being tracked
	w.OnObserve = func(site, detail string, obj any) {
		if site == "peerlinktracker.finishedTracking" {
			s.tracker = obj
		}
	}
	s.streams = map[int]responseassembler.ResponseStream{}
	s.scopeOf, s.skipOf, s.countOf = map[int]string{}, map[int]int64{}, map[int]int64{}
	s.trav, s.missing, s.started, s.finished, s.peerOf = map[int]map[int]bool{}, map[int]bool{}, map[int]bool{}, map[int]bool{}, map[int]string{}
	d := GenDAG(t, GenCfg{MaxBlocks: 8, MaxDepth: 2})
	s.cids = d.Order
	if len(s.cids) > 6 {
		s.cids = s.cids[:6]
	}
	nreq := 2 + t.Draw(4)
	active := []int{}
	started := 0
	n := 10 + t.Draw(50)
	for i := 0; i < n; i++ {
		switch {
		case started < nreq && (len(active) == 0 || t.Chance(250)):
			op := ltOp{kind: "start", req: started}
			if t.Chance(350) {
				op.key = []string{"k1", "k2"}[t.Draw(2)]
			}
			if t.Chance(300) {
				for c := range s.cids {
					if t.Chance(300) {
						op.ignore = append(op.ignore, c)
					}
				}
			}
			if t.Chance(300) {
				op.skip = int64(1 + t.Draw(4))
			}
			s.ops = append(s.ops, op)
			active = append(active, started)
			started++
		case len(active) > 0 && t.Chance(150):
			j := t.Draw(len(active))
			kind := "finish"
			if t.Chance(200) {
				kind = "clear"
			} else if t.Chance(250) {
				kind = "finisherr" // the response is ended with a failure / cancelled status
			}
			s.ops = append(s.ops, ltOp{kind: kind, req: active[j]})
			active = append(active[:j], active[j+1:]...)
		case len(active) > 0 && t.Chance(80):
			// the response is paused (and carries on later): nothing about what it has sent may be forgotten
			s.ops = append(s.ops, ltOp{kind: "pause", req: active[t.Draw(len(active))]})
		case len(active) > 0:
			s.ops = append(s.ops, ltOp{kind: "link", req: active[t.Draw(len(active))], cid: t.Draw(len(s.cids)), present: !t.Chance(200)})
		}
	}
	for _, r := range active {
		s.ops = append(s.ops, ltOp{kind: "finish", req: r})
	}
	// a later request after everything finished: the blocks must be sent again
	if t.Chance(700) {
		s.ops = append(s.ops, ltOp{kind: "start", req: 100})
		for c := range s.cids {
			s.ops = append(s.ops, ltOp{kind: "link", req: 100, cid: c, present: true})
		}
		s.ops = append(s.ops, ltOp{kind: "finish", req: 100})
	}
	s.descr = fmt.Sprintf("requests=%d ops=%d", started, len(s.ops))
	w.AddProvider(func() []*Event {
		if s.next >= len(s.ops) {
			return nil
		}
		i := s.next
		return []*Event{Inject("api", fmt.Sprintf("op|%03d", i), func(string) { s.exec(w, i) })}
	})
}

func (s *c19) link(c int) ipld.Link { return cidlink.Link{Cid: s.cids[c]} }

func (s *c19) exec(w *World, i int) {
	if s.next != i || s.viol != nil {
		return
	}
	s.next++
	op := s.ops[i]
	p := peer.ID("lt-peer")
	id := ReqID(fmt.Sprintf("lt-%d", op.req))
	where := fmt.Sprintf("op %d %+v; %s", i, op, s.descr)
	switch op.kind {
	case "start":
		st := s.ra.NewStream(context.Background(), p, id, nopSub{})
		s.streams[op.req] = st
		s.started[op.req] = true
		s.trav[op.req] = map[int]bool{}
		s.scopeOf[op.req] = op.key
		if op.key != "" {
			st.DedupKey(op.key)
		}
		if len(op.ignore) > 0 {
			var links []ipld.Link
			for _, c := range op.ignore {
				links = append(links, s.link(c))
				s.trav[op.req][c] = true
			}
			st.IgnoreBlocks(links)
		}
		if op.skip > 0 {
			st.SkipFirstBlocks(op.skip)
			s.skipOf[op.req] = op.skip
		}
		w.Effect("op %d start r%d key=%q ignore=%v skip=%d", i, op.req, op.key, op.ignore, op.skip)
	case "link":
		var bd graphsync.BlockData
		var data []byte
		if op.present {
			data = []byte(fmt.Sprintf("block-%d", op.cid))
		}
		_ = s.streams[op.req].Transaction(func(rb responseassembler.ResponseBuilder) error {
			bd = rb.SendResponse(s.link(op.cid), data)
			return nil
		})
		s.countOf[op.req]++
		// model: send iff present, beyond the skip count, and no in-progress request of the scope has traversed it
		inUse := false
		for r, m := range s.trav {
			if !s.finished[r] && s.scopeOf[r] == s.scopeOf[op.req] && m[op.cid] {
				inUse = true
			}
		}
		want := op.present && s.countOf[op.req] > s.skipOf[op.req] && !inUse
		got := bd.BlockSizeOnWire() > 0
		if op.present {
			s.trav[op.req][op.cid] = true
		} else {
			s.missing[op.req] = true
		}
		w.Effect("op %d link r%d c%d present=%v -> send=%v", i, op.req, op.cid, op.present, got)
		if got != want {
			sig := "block-withheld"
			if got {
				sig = "block-sent-twice-while-in-use"
			}
			s.viol = &Violation{Property: "C19", Rule: "R1", Signature: sig, Detail: fmt.Sprintf("send decision %v, model %v (index %d, skip %d, in use in scope %q: %v); %s", got, want, s.countOf[op.req], s.skipOf[op.req], s.scopeOf[op.req], inUse, where)}
		}
		if bd.Index() != s.countOf[op.req] {
			s.viol = &Violation{Property: "C19", Rule: "R1", Signature: "block-index", Detail: fmt.Sprintf("block index %d, want %d; %s", bd.Index(), s.countOf[op.req], where)}
		}
	case "finish":
		var st graphsync.ResponseStatusCode
		_ = s.streams[op.req].Transaction(func(rb responseassembler.ResponseBuilder) error {
			st = rb.FinishRequest()
			return nil
		})
		s.finished[op.req] = true
		want := graphsync.RequestCompletedFull
		if s.missing[op.req] {
			want = graphsync.RequestCompletedPartial
		}
		w.Effect("op %d finish r%d -> %d", i, op.req, st)
		if st != want {
			s.viol = &Violation{Property: "C19", Rule: "R2", Signature: "completeness-status", Detail: fmt.Sprintf("FinishRequest reported %d, want %d (missing link seen: %v); %s", st, want, s.missing[op.req], where)}
		}
	case "pause":
		_ = s.streams[op.req].Transaction(func(rb responseassembler.ResponseBuilder) error {
			rb.PauseRequest()
			return nil
		})
		w.Effect("op %d pause r%d", i, op.req)
		if s.viol == nil {
			s.viol = s.checkTrackerState(where)
		}
	case "finisherr":
		code := []graphsync.ResponseStatusCode{graphsync.RequestCancelled, graphsync.RequestFailedUnknown, graphsync.RequestFailedContentNotFound}[op.req%3]
		_ = s.streams[op.req].Transaction(func(rb responseassembler.ResponseBuilder) error {
			rb.FinishWithError(code)
			return nil
		})
		s.finished[op.req] = true
		w.Effect("op %d finish-with-error r%d %d", i, op.req, code)
	case "clear":
		s.streams[op.req].ClearRequest()
		s.finished[op.req] = true
		w.Effect("op %d clear r%d", i, op.req)
	}
	if (op.kind == "finish" || op.kind == "clear" || op.kind == "finisherr") && s.viol == nil {
		s.viol = s.checkTrackerState(where)
	}
}

// checkTrackerState compares the sizes of the tracker's tables with what the
// requests still in progress account for (R3: no state is kept for finished requests).
func (s *c19) checkTrackerState(where string) *Violation {
	if s.tracker == nil {
		return nil
	}
	v := reflect.ValueOf(s.tracker).Elem()
	lenOf := func(val reflect.Value, name string) int {
		f := val.FieldByName(name)
		if !f.IsValid() {
			return -1
		}
		return f.Len()
	}
	inProgress, withKey, withSkip, withCount := 0, 0, 0, 0
	keys := map[string]bool{}
	for r := range s.started {
		if s.finished[r] {
			continue
		}
		inProgress++
		if s.scopeOf[r] != "" {
			withKey++
			keys[s.scopeOf[r]] = true
		}
		if s.skipOf[r] > 0 {
			withSkip++
		}
		if s.countOf[r] > 0 {
			withCount++
		}
	}
	type chk struct {
		name string
		got  int
		want int
	}
	checks := []chk{
		{"altTrackers", lenOf(v, "altTrackers"), len(keys)},
		{"dedupKeys", lenOf(v, "dedupKeys"), withKey},
		{"skipFirstBlocks", lenOf(v, "skipFirstBlocks"), withSkip},
		{"blockSentCount", lenOf(v, "blockSentCount"), withCount},
	}
	for _, c := range checks {
		if c.got >= 0 && c.got != c.want {
			return &Violation{Property: "C19", Rule: "R3", Signature: "tracking-state-kept:" + c.name, Detail: fmt.Sprintf("tracker table %s has %d entries, the requests in progress account for %d; %s", c.name, c.got, c.want, where)}
		}
	}
	if inProgress == 0 {
		lt := v.FieldByName("linkTracker")
		if lt.IsValid() && !lt.IsNil() {
			e := lt.Elem()
			for _, name := range []string{"missingBlocks", "linksWithBlocksTraversedByRequest", "traversalsWithBlocksInProgress"} {
				if n := lenOf(e, name); n > 0 {
					return &Violation{Property: "C19", Rule: "R3", Signature: "tracking-state-kept:" + name, Detail: fmt.Sprintf("all requests have finished but %s still has %d entries; %s", name, n, where)}
				}
			}
		}
	}
	return nil
}

func (s *c19) Describe(w *World) string      { return s.descr }
func (s *c19) Done(w *World) bool            { return s.next >= len(s.ops) || s.viol != nil }
func (s *c19) Heal(w *World)                 {}
func (s *c19) Invariant(w *World) *Violation { return s.viol }
func (s *c19) Final(w *World) *Violation     { return s.viol }
