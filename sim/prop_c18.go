package sim

import (
	"fmt"
	"sync"

	"github.com/ipfs/go-graphsync/notifications"
)

// pubSub is a recording subscriber whose callbacks are gates.
type pubSub struct {
	w    *World
	name string
	mu   sync.Mutex
	got  map[string][]string // topic -> events and "CLOSE" markers in arrival order
}

func (s *pubSub) OnNext(t notifications.Topic, e notifications.Event) {
	s.mu.Lock()
	s.got[t.(string)] = append(s.got[t.(string)], e.(string))
	s.mu.Unlock()
	// the key does not name the subscriber: which of several subscribers of a
	// topic is called first is the runtime's (map order) choice, not ours
	s.w.Effect("callback") // neither subscriber nor topic: their order is the runtime's map order
	s.w.Park("hook", "callback")
}

func (s *pubSub) OnClose(t notifications.Topic) {
	s.mu.Lock()
	s.got[t.(string)] = append(s.got[t.(string)], "CLOSE")
	s.mu.Unlock()
	s.w.Effect("callback")
	s.w.Park("hook", "callback")
}

type pubOp struct {
	kind  string // sub | unsub | pub | close | shutdown
	topic string
	sub   int
	ev    string
}

// c18: the real publisher against PublisherModel.
type c18 struct {
	p     notifications.Publisher
	subs  []*pubSub
	ops   []pubOp
	next  int
	want  []map[string][]string // per subscriber: topic -> expected sequence
	descr string
}

func newC18() Scenario { return &c18{} }

func (s *c18) Name() string     { return "publisher-histories" }
func (s *c18) Property() string { return "C18" }

func (s *c18) Build(w *World) {
	t := w.Tape
	w.Prof.Weights = map[string]int{"advance": 0, "hook": []int{1, 10, 40}[t.Draw(3)], "api": 10}
	s.p = notifications.NewPublisher()
	s.p.Startup()
	nsub := 2 + t.Draw(3)
	ntop := 2 + t.Draw(3)
	for i := 0; i < nsub; i++ {
		s.subs = append(s.subs, &pubSub{w: w, name: fmt.Sprintf("s%d", i), got: map[string][]string{}})
		s.want = append(s.want, map[string][]string{})
	}
	n := 5 + t.Draw(35)
	if t.Chance(250) {
		// swarm: long bursts against slow subscribers, so that the publisher's command queue backs up
		n = 40 + t.Draw(120)
		w.Prof.Weights["hook"] = 1
		w.Prof.Weights["api"] = 40
	}
	ev := 0
	for i := 0; i < n; i++ {
		topic := fmt.Sprintf("t%d", t.Draw(ntop))
		switch k := t.Draw(20); {
		case k < 6:
			s.ops = append(s.ops, pubOp{kind: "sub", topic: topic, sub: t.Draw(nsub)})
		case k < 14:
			ev++
			s.ops = append(s.ops, pubOp{kind: "pub", topic: topic, ev: fmt.Sprintf("e%d", ev)})
		case k < 16:
			s.ops = append(s.ops, pubOp{kind: "unsub", sub: t.Draw(nsub)})
		case k < 19:
			s.ops = append(s.ops, pubOp{kind: "close", topic: topic})
		default:
			s.ops = append(s.ops, pubOp{kind: "shutdown"})
		}
	}
	if t.Chance(700) {
		s.ops = append(s.ops, pubOp{kind: "shutdown"})
	}
	// the model, evaluated over the issue order (the publisher serialises commands in arrival order)
	subscribed := map[string]map[int]bool{}
	down := false
	for _, op := range s.ops {
		if down {
			continue
		}
		switch op.kind {
		case "sub":
			if subscribed[op.topic] == nil {
				subscribed[op.topic] = map[int]bool{}
			}
			subscribed[op.topic][op.sub] = true
		case "pub":
			for i := range subscribed[op.topic] {
				s.want[i][op.topic] = append(s.want[i][op.topic], op.ev)
			}
		case "close":
			for i := range subscribed[op.topic] {
				s.want[i][op.topic] = append(s.want[i][op.topic], "CLOSE")
			}
			delete(subscribed, op.topic)
		case "unsub":
			for tp, m := range subscribed {
				if m[op.sub] {
					s.want[op.sub][tp] = append(s.want[op.sub][tp], "CLOSE")
					delete(m, op.sub)
				}
			}
		case "shutdown":
			for tp, m := range subscribed {
				for i := range m {
					s.want[i][tp] = append(s.want[i][tp], "CLOSE")
				}
			}
			subscribed = map[string]map[int]bool{}
			down = true
		}
	}
	s.descr = fmt.Sprintf("subs=%d topics=%d ops=%d", nsub, ntop, len(s.ops))
	w.AddProvider(func() []*Event {
		if s.next >= len(s.ops) {
			return nil
		}
		i := s.next
		return []*Event{Inject("api", fmt.Sprintf("op|%03d", i), func(string) {
			if s.next != i {
				return
			}
			s.next++
			op := s.ops[i]
			w.Effect("op %d %s %s sub=%d %s", i, op.kind, op.topic, op.sub, op.ev)
			switch op.kind {
			case "sub":
				s.p.Subscribe(op.topic, s.subs[op.sub])
			case "pub":
				s.p.Publish(op.topic, op.ev)
			case "unsub":
				s.p.Unsubscribe(s.subs[op.sub])
			case "close":
				s.p.Close(op.topic)
			case "shutdown":
				s.p.Shutdown()
			}
		})}
	})
	w.cleanup = append(w.cleanup, func() { s.p.Shutdown() })
}

func (s *c18) Describe(w *World) string      { return s.descr }
func (s *c18) Done(w *World) bool            { return s.next >= len(s.ops) && w.Quiet() }
func (s *c18) Heal(w *World)                 {}
func (s *c18) Invariant(w *World) *Violation { return nil }

func (s *c18) Final(w *World) *Violation {
	for i, sub := range s.subs {
		sub.mu.Lock()
		got := sub.got
		sub.mu.Unlock()
		topics := map[string]bool{}
		for t := range got {
			topics[t] = true
		}
		for t := range s.want[i] {
			topics[t] = true
		}
		for t := range topics {
			g, wnt := got[t], s.want[i][t]
			if fmt.Sprint(g) != fmt.Sprint(wnt) {
				sig := "sequence-differs"
				ng, nw := 0, 0
				for _, x := range g {
					if x == "CLOSE" {
						ng++
					}
				}
				for _, x := range wnt {
					if x == "CLOSE" {
						nw++
					}
				}
				switch {
				case ng > nw:
					sig = "closed-more-than-once-per-subscription"
				case ng < nw:
					sig = "subscription-end-not-reported"
				case len(g) > len(wnt):
					sig = "extra-delivery"
				case len(g) < len(wnt):
					sig = "lost-delivery"
				}
				return &Violation{Property: "C18", Rule: "R1", Signature: sig, Detail: fmt.Sprintf("subscriber %s topic %s received %v, model %v; %s", sub.name, t, g, wnt, s.descr)}
			}
		}
	}
	return nil
}
