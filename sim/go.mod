module verifsim

go 1.25.7

require (
	github.com/anishathalye/porcupine v1.3.0
	github.com/ipfs/go-block-format v0.2.4
	github.com/ipfs/go-cid v0.6.2
	github.com/ipfs/go-graphsync v0.0.0
	github.com/ipfs/go-log/v2 v2.9.2
	github.com/ipld/go-ipld-prime v0.24.0
	github.com/libp2p/go-libp2p v0.48.0
	github.com/multiformats/go-multihash v0.2.3
	go.opentelemetry.io/otel/trace v1.44.0
)

require (
	github.com/anishathalye/porcupine v1.3.0
	github.com/cespare/xxhash/v2 v2.3.0 // indirect
	github.com/decred/dcrd/dcrec/secp256k1/v4 v4.4.1 // indirect
	github.com/go-logr/logr v1.4.3 // indirect
	github.com/go-logr/stdr v1.2.2 // indirect
	github.com/google/uuid v1.6.0 // indirect
	github.com/hannahhoward/go-pubsub v0.0.0-20200423002714-8d62886cc36e // indirect
	github.com/ipfs/boxo v0.41.0 // indirect
	github.com/ipfs/go-ipfs-pq v0.0.4 // indirect
	github.com/ipfs/go-peertaskqueue v0.8.3 // indirect
	github.com/ipld/go-codec-dagpb v1.7.0 // indirect
	github.com/klauspost/cpuid/v2 v2.3.0 // indirect
	github.com/libp2p/go-buffer-pool v0.1.0 // indirect
	github.com/libp2p/go-msgio v0.3.0 // indirect
	github.com/mattn/go-isatty v0.0.22 // indirect
	github.com/mr-tron/base58 v1.3.0 // indirect
	github.com/multiformats/go-base32 v0.1.0 // indirect
	github.com/multiformats/go-base36 v0.2.0 // indirect
	github.com/multiformats/go-multiaddr v0.16.1 // indirect
	github.com/multiformats/go-multibase v0.3.0 // indirect
	github.com/multiformats/go-multicodec v0.10.0 // indirect
	github.com/multiformats/go-multistream v0.6.1 // indirect
	github.com/multiformats/go-varint v0.1.0 // indirect
	github.com/polydawn/refmt v0.90.0 // indirect
	github.com/spaolacci/murmur3 v1.1.0 // indirect
	go.opentelemetry.io/auto/sdk v1.2.1 // indirect
	go.opentelemetry.io/otel v1.44.0 // indirect
	go.opentelemetry.io/otel/metric v1.44.0 // indirect
	go.uber.org/multierr v1.11.0 // indirect
	go.uber.org/zap v1.28.0 // indirect
	golang.org/x/crypto v0.53.0 // indirect
	golang.org/x/exp v0.0.0-20260603202125-055de637280b // indirect
	golang.org/x/sys v0.46.0 // indirect
	google.golang.org/protobuf v1.36.11 // indirect
	lukechampine.com/blake3 v1.4.1 // indirect
)

replace github.com/ipfs/go-graphsync => /repo
