package sim

import (
	"fmt"
	"sort"

	"github.com/libp2p/go-libp2p/core/peer"

	"github.com/ipfs/go-graphsync/allocator"
)

// allocModel is the executable reference model written from the statements of
// C13 and C14 (not from the implementation).
type allocModel struct {
	total, perPeer uint64
	alloc          map[string]uint64
	pending        map[string][]*allocWaiter
	next           int
}

type allocWaiter struct {
	id     int // operation number
	amount uint64
	order  int    // request order among waiting allocations
	state  string // waiting | granted | failed
}

func (m *allocModel) sum() uint64 {
	var t uint64
	for _, v := range m.alloc {
		t += v
	}
	return t
}

func (m *allocModel) allocate(p string, amt uint64, id int) *allocWaiter {
	w := &allocWaiter{id: id, amount: amt, state: "waiting"}
	if len(m.pending[p]) == 0 && m.sum()+amt <= m.total && m.alloc[p]+amt <= m.perPeer {
		m.alloc[p] += amt
		w.state = "granted"
		return w
	}
	w.order = m.next
	m.next++
	m.pending[p] = append(m.pending[p], w)
	return w
}

// grant: per-peer FIFO; the earliest-requested head that fits its own peer's
// limit goes first; stop when it does not fit the total.
func (m *allocModel) grant() {
	for {
		var best *allocWaiter
		bestPeer := ""
		for p, q := range m.pending {
			if len(q) == 0 {
				continue
			}
			h := q[0]
			if m.alloc[p]+h.amount > m.perPeer {
				continue
			}
			if best == nil || h.order < best.order {
				best, bestPeer = h, p
			}
		}
		if best == nil || m.sum()+best.amount > m.total {
			return
		}
		m.alloc[bestPeer] += best.amount
		best.state = "granted"
		m.pending[bestPeer] = m.pending[bestPeer][1:]
	}
}

func (m *allocModel) release(p string, amt uint64) {
	if amt > m.alloc[p] {
		amt = m.alloc[p]
	}
	m.alloc[p] -= amt
	m.grant()
}

func (m *allocModel) releasePeer(p string) {
	for _, w := range m.pending[p] {
		w.state = "failed"
	}
	m.pending[p] = nil
	m.alloc[p] = 0
	m.grant()
}

func (m *allocModel) pendingBytes() (uint64, uint64) {
	var bytes, peers uint64
	for _, q := range m.pending {
		var b uint64
		for _, w := range q {
			b += w.amount
		}
		if b > 0 {
			peers++
			bytes += b
		}
	}
	return bytes, peers
}

type allocOp struct {
	kind string // alloc | release | releasePeer
	peer string
	amt  uint64
}

// c13 drives the real allocator through generated histories; prop selects which rules are reported.
type c13 struct {
	prop    string
	a       *allocator.Allocator
	m       *allocModel
	ops     []allocOp
	next    int
	waiters []*allocWaiter
	chans   []<-chan error
	viol    *Violation
	descr   string
}

func newC13() Scenario { return &c13{prop: "C13"} }
func newC14() Scenario { return &c13{prop: "C14"} }

func (s *c13) Name() string     { return "allocator-histories" }
func (s *c13) Property() string { return s.prop }

func pid(name string) peer.ID { return peer.ID("alloc-peer-" + name) }

func (s *c13) Build(w *World) {
	t := w.Tape
	w.Prof.Weights = map[string]int{"advance": 0}
	unit := uint64([]int{1, 10, 64}[t.Draw(3)])
	perPeer := unit * uint64(2+t.Draw(6))
	total := unit * uint64(2+t.Draw(12))
	s.a = allocator.NewAllocator(total, perPeer)
	s.m = &allocModel{total: total, perPeer: perPeer, alloc: map[string]uint64{}, pending: map[string][]*allocWaiter{}}
	npeers := 2 + t.Draw(3)
	n := 5 + t.Draw(40)
	allocPm := []int{500, 650, 800}[t.Draw(3)]
	for i := 0; i < n; i++ {
		p := string(rune('p' + t.Draw(npeers)))
		switch {
		case t.Chance(allocPm):
			// small set of amounts, including ones above the per-peer limit
			amt := unit * uint64([]int{1, 1, 2, 3, 5, int(perPeer/unit) + 1}[t.Draw(6)])
			s.ops = append(s.ops, allocOp{"alloc", p, amt})
		case t.Chance(850):
			// releases of what was granted, of less, and of more than is held
			amt := unit * uint64([]int{1, 2, 3, 7, 100}[t.Draw(5)])
			s.ops = append(s.ops, allocOp{"release", p, amt})
		default:
			s.ops = append(s.ops, allocOp{"releasePeer", p, 0})
		}
	}
	// a final phase in which everything is released, for "once everything is released"
	if t.Chance(600) {
		for i := 0; i < npeers; i++ {
			s.ops = append(s.ops, allocOp{"releasePeer", string(rune('p' + i)), 0})
		}
	}
	s.descr = fmt.Sprintf("total=%d perPeer=%d peers=%d ops=%d", total, perPeer, npeers, len(s.ops))
	w.AddProvider(func() []*Event {
		if s.next >= len(s.ops) {
			return nil
		}
		i := s.next
		return []*Event{Inject("api", fmt.Sprintf("op|%03d", i), func(string) { s.exec(w, i) })}
	})
}

func (s *c13) exec(w *World, i int) {
	if s.next != i {
		return
	}
	s.next++
	op := s.ops[i]
	switch op.kind {
	case "alloc":
		ch := s.a.AllocateBlockMemory(pid(op.peer), op.amt)
		s.chans = append(s.chans, ch)
		s.waiters = append(s.waiters, s.m.allocate(op.peer, op.amt, i))
		w.Effect("op %d alloc %s %d", i, op.peer, op.amt)
	case "release":
		err := s.a.ReleaseBlockMemory(pid(op.peer), op.amt)
		s.m.release(op.peer, op.amt)
		w.Effect("op %d release %s %d -> %v", i, op.peer, op.amt, err != nil)
	case "releasePeer":
		err := s.a.ReleasePeerMemory(pid(op.peer))
		s.m.releasePeer(op.peer)
		w.Effect("op %d releasePeer %s -> %v", i, op.peer, err != nil)
	}
	s.viol = s.compare(w, i)
}

func (s *c13) Describe(w *World) string { return s.descr }
func (s *c13) Done(w *World) bool       { return s.next >= len(s.ops) }
func (s *c13) Heal(w *World)            {}

func (s *c13) Invariant(w *World) *Violation { return s.viol }

// compare checks the real allocator against the model after operation i.
func (s *c13) compare(w *World, i int) *Violation {
	op := s.ops[i]
	where := fmt.Sprintf("after op %d (%s %s %d); %s", i, op.kind, op.peer, op.amt, s.descr)
	st := s.a.Stats()
	if s.prop == "C13" {
		// R1: limits and exact accounting
		if st.TotalAllocatedAllPeers > s.m.total {
			return &Violation{Property: "C13", Rule: "R1", Signature: "total-over-limit", Detail: fmt.Sprintf("total allocated %d exceeds the limit %d %s", st.TotalAllocatedAllPeers, s.m.total, where)}
		}
		if st.TotalAllocatedAllPeers != s.m.sum() {
			return &Violation{Property: "C13", Rule: "R1", Signature: "total-accounting", Detail: fmt.Sprintf("reported total %d, granted minus released %d %s", st.TotalAllocatedAllPeers, s.m.sum(), where)}
		}
		var peers []string
		for p := range s.m.alloc {
			peers = append(peers, p)
		}
		sort.Strings(peers)
		for _, p := range peers {
			got := s.a.AllocatedForPeer(pid(p))
			if got > s.m.perPeer {
				return &Violation{Property: "C13", Rule: "R1", Signature: "peer-over-limit", Detail: fmt.Sprintf("peer %s holds %d, limit %d %s", p, got, s.m.perPeer, where)}
			}
			if got != s.m.alloc[p] {
				return &Violation{Property: "C13", Rule: "R1", Signature: "peer-accounting", Detail: fmt.Sprintf("peer %s reported %d, model %d %s", p, got, s.m.alloc[p], where)}
			}
		}
		pb, pp := s.m.pendingBytes()
		if st.TotalPendingAllocations != pb || st.NumPeersWithPendingAllocations != pp {
			return &Violation{Property: "C13", Rule: "R1", Signature: "pending-accounting", Detail: fmt.Sprintf("reported pending %d bytes / %d peers, model %d / %d %s", st.TotalPendingAllocations, st.NumPeersWithPendingAllocations, pb, pp, where)}
		}
		if s.m.sum() == 0 && pb == 0 && (st.TotalAllocatedAllPeers != 0 || st.TotalPendingAllocations != 0) {
			return &Violation{Property: "C13", Rule: "R1", Signature: "nonzero-after-all-released", Detail: where}
		}
		return nil
	}
	// C14: which waiting allocations became ready, and how
	for k, ch := range s.chans {
		wt := s.waiters[k]
		state := "waiting"
		select {
		case err := <-ch:
			if err == nil {
				state = "granted"
			} else {
				state = "failed"
			}
			// keep it observable for later comparisons
			c := make(chan error, 1)
			c <- err
			s.chans[k] = c
		default:
		}
		if state != wt.state {
			sig := "grant-order"
			switch {
			case wt.state == "granted" && state == "waiting":
				sig = "left-waiting-although-grantable"
			case wt.state == "waiting" && state == "granted":
				sig = "granted-too-early"
			case wt.state == "failed":
				sig = "not-failed-on-peer-release"
			}
			return &Violation{Property: "C14", Rule: "R2", Signature: sig, Detail: fmt.Sprintf("allocation of op %d (%d bytes): implementation says %s, model says %s %s", wt.id, wt.amount, state, wt.state, where)}
		}
	}
	return nil
}

func (s *c13) Final(w *World) *Violation { return s.viol }
