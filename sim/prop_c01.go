package sim

import (
	"crypto/sha256"
	"fmt"

	blocks "github.com/ipfs/go-block-format"
	"github.com/ipfs/go-cid"
	"github.com/ipld/go-ipld-prime"
	"github.com/libp2p/go-libp2p/core/peer"
	mh "github.com/multiformats/go-multihash"

	"github.com/ipfs/go-graphsync"
	gsmsg "github.com/ipfs/go-graphsync/message"
)

// c01: real requestor, scripted adversarial responder.
type c01 struct {
	dag, other *DAG
	sel        ipld.Node
	selDesc    string
	rq         map[cid.Cid]bool
	a          *Node
	p          *Scripted
	req        *Req
	script     *Script
	muts       []string
	pauseAt    int64
	paused     bool
	resumed    bool
}

func newC01() Scenario { return &c01{} }

func (s *c01) Name() string     { return "adversarial-responder" }
func (s *c01) Property() string { return "C01" }

type advEntry struct {
	c      cid.Cid
	action graphsync.LinkAction
	data   []byte // block to attach (nil = none)
	prefix cid.Prefix
}

func (s *c01) Build(w *World) {
	t := w.Tape
	drawProfile(w)
	s.dag = GenDAG(t, GenCfg{MaxBlocks: 3 + t.Draw(14), MaxDepth: 2 + t.Draw(4), BlockPad: []int{0, 0, 30}[t.Draw(3)], Share: []int{0, 100, 300}[t.Draw(3)], Empty: []int{0, 0, 80}[t.Draw(3)], Alias: []int{0, 0, 100}[t.Draw(3)]})
	s.other = GenDAG(t, GenCfg{MaxBlocks: 3 + t.Draw(5), MaxDepth: 2, BlockPad: 77})
	s.sel, s.selDesc = AllSelector(int64(2+t.Draw(8))), "all"
	if t.Chance(300) {
		s.sel, s.selDesc = GenSelector(t, 8)
	}
	s.rq = map[cid.Cid]bool{}
	rqPm := []int{0, 0, 200, 500}[t.Draw(4)]
	s.a = NewNode(w, "A", NodeCfg{GateReads: true, GateCommits: true})
	if t.Chance(150) {
		s.a.Store.WriteFaults = []string{"err"}
		w.Prof.FaultPm = map[string]int{"commit": 100}
		w.Prof.FaultBudget = 2
	}
	if rqPm > 0 && t.Chance(250) {
		// disk trouble at the requestor: a local read may stop half way (short read, or an error in mid-stream)
		s.a.Store.ReadFaults = []string{"short", "torn"}
		if w.Prof.FaultPm == nil {
			w.Prof.FaultPm = map[string]int{}
		}
		w.Prof.FaultPm["load"] = 250
		w.Prof.FaultBudget = 3
	}
	for _, c := range s.dag.Order {
		if t.Chance(rqPm) {
			s.rq[c] = true
			s.a.Store.Put(c, s.dag.Blocks[c])
		}
	}
	s.p = NewScripted(w, "P")
	s.req = s.a.NewReq("r1", &Node{ID: s.p.ID}, s.dag.Root, s.sel)
	// requestor-side pause/resume in some runs, so that the verifier replays hostile metadata
	if t.Chance(200) {
		s.pauseAt = int64(1 + t.Draw(5))
	}
	if s.pauseAt > 0 {
		s.a.OnIncomingBlock = func(_ peer.ID, r graphsync.ResponseData, b graphsync.BlockData, a graphsync.IncomingBlockHookActions) {
			if b.Index() == s.pauseAt && !s.paused {
				s.paused = true
				a.PauseRequest()
			}
		}
	}
	// the honest stream
	csel, _ := CanonicalSelector(s.sel)
	ref := Ref(s.dag.Root, csel, s.full(), 0)
	var honest []advEntry
	for _, l := range ref.Loads {
		honest = append(honest, advEntry{c: l.Cid, action: graphsync.LinkActionPresent, data: s.dag.Blocks[l.Cid], prefix: l.Cid.Prefix()})
	}
	stream := append([]advEntry(nil), honest...)
	// mutations
	nm := t.Draw(5)
	pick := func() int {
		if len(stream) == 0 {
			return 0
		}
		return t.Draw(len(stream))
	}
	for i := 0; i < nm && len(stream) > 0; i++ {
		switch k := t.Draw(12); k {
		case 0: // swap two entries
			a, b := pick(), pick()
			stream[a], stream[b] = stream[b], stream[a]
			s.muts = append(s.muts, "swap")
		case 1: // drop
			j := pick()
			stream = append(stream[:j], stream[j+1:]...)
			s.muts = append(s.muts, "drop")
		case 2: // duplicate
			j := pick()
			stream = append(stream[:j+1], stream[j:]...)
			s.muts = append(s.muts, "dup")
		case 3: // wrong action
			j := pick()
			stream[j].action = []graphsync.LinkAction{graphsync.LinkActionMissing, graphsync.LinkActionDuplicateNotSent, graphsync.LinkActionDuplicateDAGSkipped}[t.Draw(3)]
			s.muts = append(s.muts, "action")
		case 4: // forged bytes under the right prefix
			j := pick()
			stream[j].data = append([]byte("forged:"), stream[j].data...)
			s.muts = append(s.muts, "forge")
		case 5: // a genuine block of an unrelated DAG, announced under the expected CID
			j := pick()
			o := s.other.Order[t.Draw(len(s.other.Order))]
			stream[j].data = s.other.Blocks[o]
			stream[j].prefix = o.Prefix()
			s.muts = append(s.muts, "foreign-block")
		case 6: // an invented entry: unrelated CID with its genuine block
			o := s.other.Order[t.Draw(len(s.other.Order))]
			j := pick()
			e := advEntry{c: o, action: graphsync.LinkActionPresent, data: s.other.Blocks[o], prefix: o.Prefix()}
			stream = append(stream[:j], append([]advEntry{e}, stream[j:]...)...)
			s.muts = append(s.muts, "invent")
		case 7: // same bytes under another prefix (raw instead of dag-cbor or vice versa)
			j := pick()
			p := stream[j].prefix
			if p.Codec == 0x71 {
				p.Codec = 0x55
			} else {
				p.Codec = 0x71
			}
			stream[j].prefix = p
			s.muts = append(s.muts, "prefix")
		case 8: // a DAG block the selector does not reach, or reaches elsewhere
			c := s.dag.Order[t.Draw(len(s.dag.Order))]
			j := pick()
			e := advEntry{c: c, action: graphsync.LinkActionPresent, data: s.dag.Blocks[c], prefix: c.Prefix()}
			stream = append(stream[:j], append([]advEntry{e}, stream[j:]...)...)
			s.muts = append(s.muts, "misplaced")
		case 10: // hash-function confusion: the link's digest, sent as a block under the identity hash
			j := pick()
			if dm, err := mh.Decode(stream[j].c.Hash()); err == nil {
				stream[j].data = append([]byte(nil), dm.Digest...)
				p := stream[j].c.Prefix()
				p.Version, p.MhType, p.MhLength = 1, mh.IDENTITY, -1
				stream[j].prefix = p
				s.muts = append(s.muts, "digest-as-identity-block")
			}
		case 11: // the genuine bytes under another hash function
			j := pick()
			p := stream[j].prefix
			p.Version, p.MhType, p.MhLength = 1, mh.SHA2_512, -1
			stream[j].prefix = p
			s.muts = append(s.muts, "other-hash-function")
		case 9: // withhold a block but claim it present
			j := pick()
			stream[j].data = nil
			s.muts = append(s.muts, "withhold")
		}
	}
	// cut into messages
	s.script = NewScript(w, "P")
	s.script.Ready = func(int) bool {
		s.p.mu.Lock()
		defer s.p.mu.Unlock()
		return len(s.p.Received) > 0
	}
	statuses := []graphsync.ResponseStatusCode{graphsync.RequestCompletedFull, graphsync.RequestCompletedPartial, graphsync.RequestFailedUnknown, graphsync.RequestRejected, graphsync.PartialResponse}
	final := statuses[t.Draw(len(statuses))]
	earlyTerminal := t.Chance(100)
	repeatTerminal := t.Chance(100)
	wrongID := t.Chance(100)
	var msgs []gsmsg.GraphSyncMessage
	for i := 0; i < len(stream) || len(msgs) == 0; {
		n := 1 + t.Draw(4)
		if i+n > len(stream) {
			n = len(stream) - i
		}
		var md []gsmsg.GraphSyncLinkMetadatum
		blks := map[cid.Cid]blocks.Block{}
		for _, e := range stream[i : i+n] {
			md = append(md, gsmsg.GraphSyncLinkMetadatum{Link: e.c, Action: e.action})
			if e.data != nil {
				// the wire carries (prefix, data); the receiver recomputes the CID
				c, err := e.prefix.Sum(e.data)
				if err == nil {
					b, _ := blocks.NewBlockWithCid(e.data, c)
					blks[c] = b
				}
			}
		}
		i += n
		st := graphsync.PartialResponse
		if i >= len(stream) || (earlyTerminal && len(msgs) == 0) {
			st = final
		}
		id := s.req.ID
		if wrongID && len(msgs) == 1 {
			id = ReqID("someone-else")
		}
		resp := gsmsg.NewResponse(id, st, md)
		msgs = append(msgs, gsmsg.NewMessage(nil, map[graphsync.RequestID]gsmsg.GraphSyncResponse{id: resp}, blks))
		if n == 0 {
			break
		}
	}
	if repeatTerminal {
		msgs = append(msgs, msgs[len(msgs)-1])
		s.muts = append(s.muts, "repeat-terminal")
	}
	if t.Chance(150) && len(msgs) > 1 { // a whole message replayed (lost ack)
		j := t.Draw(len(msgs))
		msgs = append(msgs[:j+1], msgs[j:]...)
		s.muts = append(s.muts, "replay-message")
	}
	if earlyTerminal {
		s.muts = append(s.muts, "early-terminal")
	}
	if wrongID {
		s.muts = append(s.muts, "wrong-id")
	}
	s.muts = append(s.muts, fmt.Sprintf("final=%d", final))
	for _, m := range msgs {
		m := m
		s.script.Add(func() { s.p.Send(s.a.ID, m) })
	}
	w.AddProvider(func() []*Event {
		var evs []*Event
		if !s.req.Issued {
			evs = append(evs, s.req.IssueEvent())
		}
		if s.paused && !s.resumed {
			evs = append(evs, Inject("api", "act|A|r1|unpause", func(string) {
				s.resumed = true
				go func() { _ = s.a.GS.Unpause(w.T.Context(), s.req.ID) }()
			}))
		}
		return evs
	})
}

func (s *c01) full() Resolver {
	return func(path string, c cid.Cid) ([]byte, bool) { b, ok := s.dag.Blocks[c]; return b, ok }
}

func (s *c01) Describe(w *World) string {
	return fmt.Sprintf("dag=%d sel=%s local=%d pauseAt=%d mutations=%v", len(s.dag.Order), s.selDesc, len(s.rq), s.pauseAt, s.muts)
}

func (s *c01) Done(w *World) bool { return s.req.Done() && s.script.Done() && w.Quiet() }
func (s *c01) Heal(w *World)      { w.Net.Heal() }

// NextPhase: an adversary may simply stop; the caller then gives up.
func (s *c01) NextPhase(w *World, phase int) bool {
	if phase > 1 || s.req.Done() {
		return false
	}
	w.Sync(func() { _ = s.a.GS.Unpause(w.T.Context(), s.req.ID) })
	s.req.Cancel()
	return true
}

func (s *c01) Invariant(w *World) *Violation {
	// R2 as the run proceeds: whatever is committed hashes to its link
	s.a.Store.mu.Lock()
	defer s.a.Store.mu.Unlock()
	for _, c := range s.a.Store.Commits {
		dec, err := mh.Decode(c.Cid.Hash())
		if err != nil {
			return &Violation{Property: "C01", Rule: "R2", Signature: "commit-bad-multihash", Detail: err.Error()}
		}
		if dec.Code == mh.SHA2_256 && string(dec.Digest) != string(c.Hash[:]) {
			return &Violation{Property: "C01", Rule: "R2", Signature: "commit-hash-mismatch", Detail: fmt.Sprintf("block stored under %s does not hash to it", shortCid(c.Cid))}
		}
		if dec.Code == mh.IDENTITY {
			b := s.a.Store.data[c.Cid]
			if string(dec.Digest) != string(b) {
				return &Violation{Property: "C01", Rule: "R2", Signature: "commit-hash-mismatch", Detail: "identity block mismatch"}
			}
		}
	}
	return nil
}

func (s *c01) Final(w *World) *Violation {
	csel, _ := CanonicalSelector(s.sel)
	ref := Ref(s.dag.Root, csel, s.full(), 0)
	if len(s.a.Store.Commits) > 0 {
		w.Probe("c01-blocks-stored")
	}
	if len(s.req.Visits) == len(ref.Visits) {
		w.Probe("c01-complete-delivery")
	}
	for _, e := range s.req.Errs {
		if _, ok := e.(graphsync.RemoteIncorrectResponseError); ok {
			w.Probe("c01-incorrect-response-detected")
			break
		}
	}
	if s.resumed {
		w.Probe("c01-resumed-against-adversary")
	}
	// R1: delivered nodes are genuine, in reference order
	if k, ok := isSubsequence(s.req.Visits, ref.Visits); !ok {
		return &Violation{Property: "C01", Rule: "R1", Signature: "delivered-node-not-in-dag", Detail: fmt.Sprintf("delivered node %s (item %d of %d) is not what the traversal of the genuine DAG visits there, or is out of order; mutations %v", s.req.Visits[k], k, len(s.req.Visits), s.muts)}
	}
	// R3: blocks are written only as, and in the order in which, the verified traversal loads them
	var loads []cid.Cid
	for _, l := range ref.Loads {
		loads = append(loads, l.Cid)
	}
	j := 0
	for i, c := range s.a.Store.Commits {
		for j < len(loads) && !loads[j].Equals(c.Cid) {
			j++
		}
		if j == len(loads) {
			inDag := "outside the requested DAG"
			if _, ok := s.dag.Blocks[c.Cid]; ok {
				inDag = "of the DAG, but not where the selector's traversal loads it"
			}
			return &Violation{Property: "C01", Rule: "R3", Signature: "stored-unverified-block", Detail: fmt.Sprintf("commit %d stores block %s %s; mutations %v", i, shortCid(c.Cid), inDag, s.muts)}
		}
		j++
		if sha256.Sum256(s.dag.Blocks[c.Cid]) != c.Hash {
			return &Violation{Property: "C01", Rule: "R2", Signature: "stored-wrong-bytes", Detail: fmt.Sprintf("bytes stored under %s differ from the genuine block", shortCid(c.Cid))}
		}
	}
	return nil
}
