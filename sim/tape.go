package sim

import (
	"math/rand"
)

// Tape is the single source of every random choice of a run. In recording
// mode draws come from a PRNG and are appended to the record; in replay mode
// they are read back, and an exhausted tape yields zeros. A draw of 0 always
// means the plainest choice, so any prefix, deletion or lowering of a tape is
// still a valid run (which is what makes shrinking generic).
type Tape struct {
	vals   []uint32
	pos    int
	rng    *rand.Rand
	replay bool
}

func NewRecordingTape(seed int64) *Tape {
	return &Tape{rng: rand.New(rand.NewSource(seed))}
}

func NewReplayTape(vals []uint32) *Tape {
	cp := make([]uint32, len(vals))
	copy(cp, vals)
	return &Tape{vals: cp, replay: true}
}

// Draw returns a value in [0,n). n<=1 consumes nothing.
func (t *Tape) Draw(n int) int {
	if n <= 1 {
		return 0
	}
	if t.replay {
		if t.pos >= len(t.vals) {
			t.pos++
			return 0
		}
		v := int(t.vals[t.pos]) % n
		t.pos++
		return v
	}
	v := t.rng.Intn(n)
	t.vals = append(t.vals, uint32(v))
	t.pos++
	return v
}

// Chance is true with probability permille/1000; false is the plain choice.
func (t *Tape) Chance(permille int) bool {
	if permille <= 0 {
		return false
	}
	return t.Draw(1000) >= 1000-permille
}

// Range returns a value in [lo,hi]; lo is the plain choice.
func (t *Tape) Range(lo, hi int) int {
	if hi <= lo {
		return lo
	}
	return lo + t.Draw(hi-lo+1)
}

// Record returns the values consumed so far (recording) or the tape (replay).
func (t *Tape) Record() []uint32 {
	if t.replay {
		n := t.pos
		if n > len(t.vals) {
			n = len(t.vals)
		}
		return t.vals[:n]
	}
	return t.vals
}

func (t *Tape) Pos() int { return t.pos }

// Digest hashes the values consumed so far: a source of further per-run choices that costs no draw (adding a
// feature this way leaves every recorded tape meaning what it meant).
func (t *Tape) Digest() uint64 {
	h := uint64(1469598103934665603)
	for _, v := range t.vals[:t.pos] {
		h ^= uint64(v)
		h *= 1099511628211
	}
	return h
}
