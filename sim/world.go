package sim

import (
	"crypto/sha256"
	"encoding/hex"
	"fmt"
	"os"
	"runtime"
	"sort"
	"strconv"
	"strings"
	"sync"
	"testing"
	"testing/synctest"
	"time"

	"github.com/libp2p/go-libp2p/core/peer"

	"github.com/ipfs/go-graphsync/verifhook"
)

// Violation is a property failure found by an oracle.
type Violation struct {
	Property  string `json:"property"`
	Rule      string `json:"rule"`
	Signature string `json:"signature"`
	Detail    string `json:"detail"`
	Step      int    `json:"step"`
}

func (v *Violation) Class() string { return v.Property + "/" + v.Rule + "/" + v.Signature }

// Event is something the scheduler can choose to make happen: a parked gate
// (a system goroutine waiting for its environment) or an injectable action.
type Event struct {
	Key      string
	Class    string
	Outcomes []string // Outcomes[0] is the plain one
	fire     func(outcome string)
	since    int
	gate     bool
}

// Profile is the per-run swarm configuration of the scheduler.
type Profile struct {
	Weights     map[string]int // by class; default 10
	FaultPm     map[string]int // by class: permille chance of a non-plain outcome
	FaultBudget int            // total faults allowed in the run
	RunToBlock  int            // permille: keep firing the newest enabled event
	StepCap     int
}

func (p *Profile) weight(class string) int {
	if w, ok := p.Weights[class]; ok {
		return w
	}
	return 10
}

// Scenario is one property's world, workload and oracle.
type Scenario interface {
	Name() string
	Property() string
	Build(w *World)
	Done(w *World) bool
	Heal(w *World)
	Invariant(w *World) *Violation
	Final(w *World) *Violation
	// Describe returns a short human-readable description of the generated world.
	Describe(w *World) string
}

// World is one simulated run.
type World struct {
	// LockYieldIn is called with the stack of a goroutine about to be held at a lock-yield point (d=+1; it returns a
	// tag, "" for none) and again with that tag when the goroutine carries on (d=-1)
	LockYieldIn func(stackOrTag string, d int) string
	OnYieldSite func(site, detail, node string, obj any) // a hand-placed yield site was passed (enabled or not); node = name of the hook's object, if it has one
	lockMarks   bool                                     // some "lock:" site is enabled in this run: keep the per-goroutine counts
	lockDepth   map[uint64]int                           // instrumented locks held, by goroutine
	rootG       uint64                                   // the scheduler's goroutine
	T           *testing.T
	Tape        *Tape
	Prof        Profile

	mu       sync.Mutex
	gates    map[string]*Event
	keySeq   map[string]int
	arrivals []arrival // gates reached since the last quiescent point, not yet keyed
	provs    []func() []*Event
	effects  []string
	hash     [32]byte
	Step     int
	Faults   map[string]int
	Probes   map[string]int
	Trace    []string // human readable, bounded
	traceCap int
	viol     *Violation
	aborting bool
	draining bool
	Start    time.Time
	states   map[uint64]struct{}

	Nodes   map[string]*Node
	Net     *Fabric
	cleanup []func()

	nonDefault int
	lastFired  string

	// MaxIdle is how much simulated time the drain lets pass with nothing
	// happening before it concludes that nothing will (must exceed every
	// timeout that can still be pending after Heal).
	MaxIdle   time.Duration
	OrderSalt uint64
	Barriers  map[string]bool
	Yields    map[string]bool
	objNames  map[any]string
	OnObserve func(site, detail string, obj any)
}

func newWorld(t *testing.T, tape *Tape) *World {
	w := newWorld0(t, tape)
	w.installHooks()
	return w
}

// installHooks points the guarded seams in /repo at this world.
func (w *World) installHooks() {
	verifhook.OrderFn = func(site string, n int, key func(i int) string, swap func(i, j int)) {
		// canonical order by key, then a per-run permutation derived from the
		// order salt drawn at world creation (no tape draw at run time)
		idx := make([]int, n)
		for i := range idx {
			idx[i] = i
		}
		keys := make([]string, n)
		for i := 0; i < n; i++ {
			k := key(i)
			if w.OrderSalt != 0 {
				h := sha256.Sum256([]byte(fmt.Sprintf("%d|%s", w.OrderSalt, k)))
				k = hex.EncodeToString(h[:8]) + k
			}
			keys[i] = k
		}
		// selection sort using swap so that the caller's slice is permuted
		for i := 0; i < n; i++ {
			m := i
			for j := i + 1; j < n; j++ {
				if keys[j] < keys[m] {
					m = j
				}
			}
			if m != i {
				swap(i, m)
				keys[i], keys[m] = keys[m], keys[i]
			}
		}
	}
	verifhook.YieldFn = func(site, detail string, obj any) {
		if w.OnYieldSite != nil && !strings.HasPrefix(site, "lock") && !strings.HasPrefix(site, "unlock") && !strings.HasPrefix(site, "call:") {
			w.mu.Lock()
			nn := w.objNames[obj]
			w.mu.Unlock()
			w.OnYieldSite(site, detail, nn, obj)
		}
		if w.Barriers[site] {
			// not a scheduling choice: hold the caller until everything else has
			// settled, then let it go (one barrier at a time, in key order)
			d := detail
			if len(d) > 8 {
				d = d[:8]
			}
			w.Park("barrier", "barrier|"+site+"|"+d)
			return
		}
		// lock-yield builds (tools/lockyield): marks after every acquisition and release keep a per-goroutine count
		// of the instrumented locks held; a point before an acquisition is used only by a goroutine that holds none
		// (a goroutine parked while holding a mutex would stall the bubble) and never by the scheduler's own goroutine
		if strings.HasPrefix(site, "locked:") || strings.HasPrefix(site, "unlocked:") {
			if !w.lockMarks {
				return
			}
			g := goid()
			w.mu.Lock()
			if site[0] == 'l' {
				w.lockDepth[g]++
			} else if w.lockDepth[g] > 0 {
				w.lockDepth[g]--
			}
			w.mu.Unlock()
			return
		}
		if !w.Yields[site] {
			return
		}
		if strings.HasPrefix(site, "lock:") || strings.HasPrefix(site, "call:") {
			g := goid()
			w.mu.Lock()
			held := w.lockDepth[g]
			w.mu.Unlock()
			if held > 0 || g == w.rootG {
				return
			}
			// the managers' event loops are not held at the task queue's points: everything the node does waits for
			// them, and the oracles time "still in progress" by what those loops have done (TaskDone runs on them in
			// the unchanged code; a change that moves it to a worker goroutine is what these points are for)
			if strings.HasPrefix(site, "lock:taskqueue/") {
				var buf [4096]byte
				if st := string(buf[:runtime.Stack(buf[:], false)]); strings.Contains(st, "Manager).run(") {
					return
				}
			}
			// (scenarios may want to know what a goroutine held at such a point was in the middle of)
			in := ""
			if w.LockYieldIn != nil {
				var buf [8192]byte
				in = w.LockYieldIn(string(buf[:runtime.Stack(buf[:], false)]), +1)
			}
			w.Park("yield", "yield|"+site+"|"+detail)
			if in != "" {
				w.LockYieldIn(in, -1)
			}
			return
		}
		node := "?"
		w.mu.Lock()
		if n, ok := w.objNames[obj]; ok {
			node = n
		} else if st, ok := obj.(fmt.Stringer); ok {
			// not a node object but something with a stable name of its own (a request ID)
			node = st.String()
			if len(node) > 8 {
				node = node[:8]
			}
		}
		w.mu.Unlock()
		peerName := detail
		if w.Net != nil {
			peerName = w.Net.Name(peer.ID(detail))
		}
		w.Park("yield", "yield|"+site+"|"+node+">"+peerName)
	}
	verifhook.ObserveFn = func(site, detail string, obj any) {
		if w.OnObserve != nil {
			w.OnObserve(site, detail, obj)
		}
	}
	w.cleanup = append(w.cleanup, func() {
		verifhook.OrderFn, verifhook.YieldFn, verifhook.ObserveFn = nil, nil, nil
	})
}

// NameObject lets hooks identify which node an internal object belongs to.
func (w *World) NameObject(obj any, name string) {
	w.mu.Lock()
	w.objNames[obj] = name
	w.mu.Unlock()
}

func newWorld0(t *testing.T, tape *Tape) *World {
	return &World{
		objNames: map[any]string{},
		Barriers: map[string]bool{"executor.afterAdvance": true, "taskqueue.beforePop": true},
		MaxIdle:  50 * time.Second,
		Yields:   map[string]bool{"messagequeue.beforeSendMessage": true},
		T:        t, Tape: tape,
		gates:     map[string]*Event{},
		keySeq:    map[string]int{},
		lockDepth: map[uint64]int{},
		rootG:     goid(),
		Faults:    map[string]int{},
		Probes:    map[string]int{},
		traceCap:  4000,
		Start:     time.Now(),
		states:    map[uint64]struct{}{},
		Nodes:     map[string]*Node{},
		Prof:      Profile{StepCap: 3000},
	}
}

// Effect records something observable that happened in the current step.
func (w *World) Effect(format string, a ...any) {
	s := fmt.Sprintf(format, a...)
	w.mu.Lock()
	w.effects = append(w.effects, s)
	w.mu.Unlock()
}

func (w *World) Probe(name string) {
	w.mu.Lock()
	w.Probes[name]++
	w.mu.Unlock()
}

func (w *World) Fault(name string) {
	w.mu.Lock()
	w.Faults[name]++
	w.mu.Unlock()
}

// Violate records the first violation of the run (thread safe).
func (w *World) Violate(v *Violation) {
	w.mu.Lock()
	if w.viol == nil {
		v.Step = w.Step
		w.viol = v
	}
	w.mu.Unlock()
}

// Park blocks the calling system goroutine at a gate until the scheduler
// opens it, and returns the chosen outcome ("abort" during teardown). The
// caller must hold no mutex.
func (w *World) Park(class, base string, outcomes ...string) string {
	if len(outcomes) == 0 {
		outcomes = []string{"ok"}
	}
	ch := make(chan string, 1)
	w.mu.Lock()
	if w.aborting {
		w.mu.Unlock()
		return "abort"
	}
	// lock-yield builds: a goroutine that reaches one of the simulator's gates while it holds an instrumented node
	// lock is not parked (a goroutine parked with a mutex held stalls the bubble as soon as somebody wants the
	// mutex): it takes the plain outcome at once. The unchanged code never does this (probe, always 0 there).
	if w.lockMarks && class != "barrier" {
		if w.lockDepth[goid()] > 0 {
			w.Probes["gate-reached-with-a-node-lock-held:"+class]++
			w.mu.Unlock()
			return outcomes[0]
		}
	}
	// the gate gets its key (base + arrival number) when the world has settled, not now: goroutines that run at
	// the same time reach gates of the same base in an order the scheduler does not control; admit() numbers such
	// arrivals by goroutine id, i.e. in the order in which the goroutines were created
	ev := &Event{Class: class, Outcomes: outcomes, since: w.Step, gate: true}
	ev.fire = func(o string) { ch <- o }
	w.arrivals = append(w.arrivals, arrival{base: base, g: goid(), ev: ev})
	w.mu.Unlock()
	return <-ch
}

type arrival struct {
	base string
	g    uint64
	ev   *Event
}

// admit gives the gates reached since the last quiescent point their keys. Called by the scheduler's goroutine
// right after every synctest.Wait.
func (w *World) admit() {
	w.mu.Lock()
	defer w.mu.Unlock()
	if len(w.arrivals) == 0 {
		return
	}
	sort.SliceStable(w.arrivals, func(i, j int) bool {
		if w.arrivals[i].base != w.arrivals[j].base {
			return w.arrivals[i].base < w.arrivals[j].base
		}
		return w.arrivals[i].g < w.arrivals[j].g
	})
	for _, a := range w.arrivals {
		seq := w.keySeq[a.base]
		w.keySeq[a.base] = seq + 1
		a.ev.Key = fmt.Sprintf("%s#%03d", a.base, seq)
		w.gates[a.ev.Key] = a.ev
	}
	w.arrivals = nil
}

// AddProvider registers a source of injectable events.
func (w *World) AddProvider(f func() []*Event) { w.provs = append(w.provs, f) }

// Inject builds an injectable event.
func Inject(class, key string, fire func(outcome string), outcomes ...string) *Event {
	if len(outcomes) == 0 {
		outcomes = []string{"ok"}
	}
	return &Event{Key: key, Class: class, Outcomes: outcomes, fire: fire}
}

func (w *World) enabled() []*Event {
	w.mu.Lock()
	evs := make([]*Event, 0, len(w.gates)+8)
	for _, g := range w.gates {
		evs = append(evs, g)
	}
	w.mu.Unlock()
	for _, p := range w.provs {
		evs = append(evs, p()...)
	}
	sort.Slice(evs, func(i, j int) bool { return evs[i].Key < evs[j].Key })
	return evs
}

// endStep folds the effects of the step that just quiesced into the trace hash.
func (w *World) endStep() {
	w.mu.Lock()
	eff := w.effects
	w.effects = nil
	w.mu.Unlock()
	sort.Strings(eff)
	h := sha256.New()
	h.Write(w.hash[:])
	for _, e := range eff {
		h.Write([]byte(e))
		h.Write([]byte{0})
	}
	copy(w.hash[:], h.Sum(nil))
	if len(w.Trace) < w.traceCap {
		for _, e := range eff {
			w.Trace = append(w.Trace, fmt.Sprintf("%4d   %s", w.Step, e))
		}
	}
	// the step counter moves only here, at a quiescent point, so that every
	// goroutine woken by the next decision reads the same value
	w.Step++
}

func (w *World) TraceHash() string { return hex.EncodeToString(w.hash[:8]) }

func (w *World) fireEvent(ev *Event, outcome string) {
	if ev.gate {
		w.mu.Lock()
		delete(w.gates, ev.Key)
		w.mu.Unlock()
	}
	line := fmt.Sprintf("fire %s -> %s", ev.Key, outcome)
	w.lastFired = ev.Key
	w.Effect("%s", line)
	if outcome != ev.Outcomes[0] {
		w.Fault(ev.Class + ":" + outcome)
	}
	ev.fire(outcome)
}

// pick chooses the next event and its outcome from the tape.
func (w *World) pick(evs []*Event) (*Event, string) {
	var ev *Event
	if w.Prof.RunToBlock > 0 && w.Tape.Chance(w.Prof.RunToBlock) {
		// newest enabled event that is not a clock advance; ties by key
		best := -1
		for i, e := range evs {
			if e.Class == "advance" || !e.gate {
				continue
			}
			if best < 0 || e.since > evs[best].since {
				best = i
			}
		}
		if best >= 0 {
			ev = evs[best]
		}
	}
	if ev == nil {
		total := 0
		for _, e := range evs {
			total += w.Prof.weight(e.Class)
		}
		if total == 0 {
			ev = evs[0]
		} else {
			r := w.Tape.Draw(total)
			if r != 0 {
				w.nonDefault++
			}
			for _, e := range evs {
				wt := w.Prof.weight(e.Class)
				if r < wt {
					ev = e
					break
				}
				r -= wt
			}
		}
	}
	outcome := ev.Outcomes[0]
	if len(ev.Outcomes) > 1 && w.Prof.FaultBudget > 0 {
		if pm := w.Prof.FaultPm[ev.Class]; pm > 0 && w.Tape.Chance(pm) {
			outcome = ev.Outcomes[1+w.Tape.Draw(len(ev.Outcomes)-1)]
			w.Prof.FaultBudget--
			w.nonDefault++
		}
	}
	return ev, outcome
}

// Advance moves the fake clock; only the scheduler calls it.
func (w *World) Advance(d time.Duration) {
	time.Sleep(d)
}

// Result is what one run reports.
type Result struct {
	Violation    *Violation     `json:"violation,omitempty"`
	Inconclusive bool           `json:"inconclusive,omitempty"`
	TraceHash    string         `json:"trace_hash"`
	Steps        int            `json:"steps"`
	SimTimeMs    int64          `json:"sim_ms"`
	Faults       map[string]int `json:"faults,omitempty"`
	Probes       map[string]int `json:"probes,omitempty"`
	States       []uint64       `json:"states,omitempty"`
	NonDefault   int            `json:"non_default"`
	Describe     string         `json:"describe,omitempty"`
	Trace        []string       `json:"trace,omitempty"`
	Tape         []uint32       `json:"tape,omitempty"`
	Leaked       bool           `json:"leaked,omitempty"`
}

// RunOpts control one run.
type RunOpts struct {
	KeepTrace bool
}

func advanceEvent(w *World, d time.Duration) *Event {
	return Inject("advance", fmt.Sprintf("zz-advance|%v", d), func(string) {
		w.Effect("advance %v", d)
		w.Advance(d)
	})
}

// RunOnce executes one scenario on one tape inside a synctest bubble.
func RunOnce(t *testing.T, mk func() Scenario, tape *Tape, opt RunOpts) (res Result) {
	defer func() {
		if r := recover(); r != nil {
			msg := fmt.Sprint(r)
			if strings.Contains(msg, "deadlock") && strings.Contains(msg, "bubble") {
				if os.Getenv("VERIF_DEBUG_LEAK") != "" {
					fmt.Fprintln(os.Stderr, "LEAK:", msg)
					buf := make([]byte, 1<<20)
					os.Stderr.Write(buf[:runtime.Stack(buf, true)])
				}
				res.Leaked = true
				return
			}
			panic(r)
		}
	}()
	synctest.Test(t, func(t *testing.T) {
		w := newWorld(t, tape)
		sc := mk()
		sc.Build(w)
		w.AddProvider(func() []*Event { return []*Event{advanceEvent(w, 100*time.Millisecond)} })
		res.Describe = sc.Describe(w)

		finish := func() {
			res.TraceHash = w.TraceHash()
			res.Steps = w.Step
			res.SimTimeMs = time.Since(w.Start).Milliseconds()
			res.Faults = w.Faults
			res.Probes = w.Probes
			res.NonDefault = w.nonDefault
			res.Violation = w.viol
			for s := range w.states {
				res.States = append(res.States, s)
			}
			sort.Slice(res.States, func(i, j int) bool { return res.States[i] < res.States[j] })
			if opt.KeepTrace || w.viol != nil {
				res.Trace = w.Trace
			}
			res.Tape = tape.Record()
			w.teardown()
		}

		idle := 0
		for w.Step = 0; w.Step < w.Prof.StepCap; {
			w.settle()
			w.endStep()
			if w.viol == nil {
				if v := sc.Invariant(w); v != nil {
					w.Violate(v)
				}
			}
			if w.viol == nil {
				if pr, ok := sc.(Prober); ok {
					if v := w.runProbe(pr); v != nil {
						w.Violate(v)
					}
				}
			}
			if w.viol != nil {
				finish()
				return
			}
			if sc.Done(w) {
				break
			}
			evs := w.enabled()
			onlyAdvance := true
			for _, e := range evs {
				if e.Class != "advance" {
					onlyAdvance = false
				}
			}
			if onlyAdvance {
				idle++
				if idle > 3 {
					break
				}
			} else {
				idle = 0
			}
			ev, out := w.pick(evs)
			w.fireEvent(ev, out)
		}

		// heal, then fair drain; scenarios with several heal phases get one drain per phase
		sc.Heal(w)
		w.draining = true
		abort := false
		drain := func() {
			budget := 4000
			quiet := 0
			var simIdle time.Duration
			for i := 0; i < budget; i++ {
				w.settle()
				w.mu.Lock()
				hadEffects := false
				for _, e := range w.effects {
					if !strings.HasPrefix(e, "drain-advance") {
						hadEffects = true
					}
				}
				w.mu.Unlock()
				w.endStep()
				if w.viol == nil {
					if v := sc.Invariant(w); v != nil {
						w.Violate(v)
					}
				}
				if w.viol == nil {
					if pr, ok := sc.(Prober); ok {
						if v := w.runProbe(pr); v != nil {
							w.Violate(v)
						}
					}
				}
				if w.viol != nil {
					abort = true
					return
				}
				evs := w.enabled()
				var oldest *Event
				for _, e := range evs {
					if e.Class == "advance" {
						continue
					}
					if oldest == nil || e.since < oldest.since {
						oldest = e
					}
				}
				if oldest != nil {
					quiet = 0
					simIdle = 0
					w.fireEvent(oldest, oldest.Outcomes[0])
					continue
				}
				if hadEffects {
					quiet = 0
					simIdle = 0
				}
				// nothing enabled: let time pass, in growing jumps, until well past every timeout
				if sc.Done(w) && quiet >= 2 {
					return
				}
				if simIdle > w.MaxIdle {
					return
				}
				d := 100 * time.Millisecond
				switch {
				case quiet > 12:
					d = 11 * time.Minute
				case quiet > 8:
					d = 15 * time.Second
				case quiet > 4:
					d = time.Second
				}
				quiet++
				simIdle += d
				w.Effect("drain-advance %v", d)
				w.Advance(d)
			}
			// the budget ran out while events were still being produced: no verdict
			res.Inconclusive = true
		}
		drain()
		if ph, ok := sc.(Phased); ok && !abort {
			for phase := 1; phase <= 4 && !abort && !res.Inconclusive; phase++ {
				if !ph.NextPhase(w, phase) {
					break
				}
				drain()
			}
		}
		if abort {
			finish()
			return
		}
		w.settle()
		w.endStep()
		if w.viol == nil && !res.Inconclusive {
			if v := sc.Final(w); v != nil {
				w.Violate(v)
			}
		}
		if w.viol != nil && w.viol.Rule == "R0" && w.Net != nil {
			// "did not finish" in a run in which a message was lost in flight (written, then discarded by
			// the reader's idle-timeout reset): the loss is a fault of the environment, and the liveness
			// rules speak of runs without one. No verdict.
			w.Net.mu.Lock()
			lost := w.Net.LostInFlight
			w.Net.mu.Unlock()
			if lost > 0 {
				w.mu.Lock()
				w.viol = nil
				w.mu.Unlock()
				res.Inconclusive = true
				w.Probe("not-finished-after-message-lost-in-flight")
			}
		}
		if os.Getenv("VERIF_DUMP") != "" {
			buf := make([]byte, 4<<20)
			n := runtime.Stack(buf, true)
			os.Stderr.Write(buf[:n])
		}
		finish()
	})
	return res
}

// settle waits for quiescence and releases barrier gates one at a time (in
// key order) until none is left.
func (w *World) settle() {
	for {
		synctest.Wait()
		w.admit()
		w.mu.Lock()
		var first *Event
		for _, g := range w.gates {
			if g.Class == "barrier" && (first == nil || g.Key < first.Key) {
				first = g
			}
		}
		if first != nil {
			delete(w.gates, first.Key)
		}
		w.mu.Unlock()
		if first == nil {
			return
		}
		first.fire("ok")
	}
}

// Phased scenarios heal in several phases, each followed by a fair drain.
type Phased interface {
	NextPhase(w *World, phase int) bool
}

// Prober scenarios query the system at quiescent points. Probe starts helper
// goroutines and returns a function that, after the next quiescence, evaluates
// what they returned.
type Prober interface {
	Probe(w *World) func() *Violation
}

func (w *World) runProbe(p Prober) *Violation {
	f := p.Probe(w)
	if f == nil {
		return nil
	}
	w.settle()
	return f()
}

// Sync runs f in a helper goroutine and reports whether it returned by the
// next quiescent point (false: it is blocked on the system).
func (w *World) Sync(f func()) bool {
	done := make(chan struct{})
	go func() {
		defer close(done)
		f()
	}()
	w.settle()
	select {
	case <-done:
		return true
	default:
		return false
	}
}

// Quiet reports whether nothing is in flight: no system goroutine waits at a
// gate (callers parked at read gates do not count), no bytes or notifications
// are under way.
func (w *World) Quiet() bool { return w.quiet("") }

// QuietBut is Quiet, not counting goroutines held at yield points whose gate key has the given prefix.
func (w *World) QuietBut(prefix string) bool { return w.quiet(prefix) }

func (w *World) quiet(but string) bool {
	w.mu.Lock()
	for _, g := range w.gates {
		if but != "" && strings.HasPrefix(g.Key, but) {
			continue
		}
		if g.Class != "read" {
			w.mu.Unlock()
			return false
		}
	}
	w.mu.Unlock()
	if w.Net != nil {
		f := w.Net
		f.mu.Lock()
		defer f.mu.Unlock()
		if len(f.pending) > 0 {
			return false
		}
		for _, s := range f.streams {
			s.mu.Lock()
			n := len(s.inflight)
			if n == 1 && s.inflight[0] == nil {
				n = 0 // only the EOF marker
			}
			r := s.reset
			s.mu.Unlock()
			if n > 0 && !r {
				return false
			}
		}
	}
	return true
}

// YieldParked reports whether a goroutine of the node is held at an internal yield.
func (w *World) YieldParked(node string) bool {
	w.mu.Lock()
	defer w.mu.Unlock()
	for k, g := range w.gates {
		if g.Class != "yield" {
			continue
		}
		if strings.Contains(k, "|"+node+">") {
			return true
		}
		// a yield named after a request rather than a node (task workers): whose it is
		// cannot be told from the key, so it counts for every node
		parts := strings.SplitN(k, "|", 3)
		if len(parts) == 3 {
			owner := strings.SplitN(parts[2], ">", 2)[0]
			if _, isNode := w.Nodes[owner]; !isNode {
				return true
			}
		}
	}
	return false
}

// teardown cancels everything and lets every system goroutine leave.
func (w *World) teardown() {
	w.mu.Lock()
	w.aborting = true
	w.mu.Unlock()
	for _, f := range w.cleanup {
		f()
	}
	for i := 0; i < 40; i++ {
		synctest.Wait()
		w.admit()
		w.mu.Lock()
		gs := make([]*Event, 0, len(w.gates))
		for _, g := range w.gates {
			gs = append(gs, g)
		}
		w.gates = map[string]*Event{}
		w.mu.Unlock()
		for _, g := range gs {
			g.fire("abort")
		}
		if len(gs) == 0 && i > 2 {
			break
		}
		time.Sleep(200 * time.Millisecond)
	}
}

// StateSig records an abstract state signature for the reach measure.
func (w *World) StateSig(parts ...string) {
	h := sha256.Sum256([]byte(strings.Join(parts, "|")))
	var v uint64
	for i := 0; i < 8; i++ {
		v = v<<8 | uint64(h[i])
	}
	w.states[v] = struct{}{}
}

// goid returns the current goroutine's id (parsed from the stack header; only used in lock-yield runs).
func goid() uint64 {
	var buf [64]byte
	n := runtime.Stack(buf[:], false)
	f := strings.Fields(string(buf[:n]))
	if len(f) < 2 {
		return 0
	}
	id, _ := strconv.ParseUint(f[1], 10, 64)
	return id
}

// TrackLocks keeps the per-goroutine lock counts without enabling any scheduling point.
func (w *World) TrackLocks() { w.lockMarks = true }

// EnableLockYields turns on the scheduling points before lock acquisitions of the given files (lock-yield build).
func (w *World) EnableLockYields(files ...string) {
	w.lockMarks = true
	for _, f := range files {
		w.Yields["lock:"+f] = true
		w.Yields["call:"+f] = true // (points before named calls, where the build has any in that file)
	}
}

// markLock lets harness code that holds a mutex of its own across a call into the component count as holding a
// lock (no lock-yield point parks the goroutine meanwhile).
func (w *World) markLock(d int) {
	if !w.lockMarks {
		return
	}
	g := goid()
	w.mu.Lock()
	w.lockDepth[g] += d
	if w.lockDepth[g] < 0 {
		w.lockDepth[g] = 0
	}
	w.mu.Unlock()
}
