package sim

import (
	"errors"
	"fmt"

	"github.com/ipfs/go-cid"
	"github.com/ipld/go-ipld-prime/traversal"
	"github.com/libp2p/go-libp2p/core/peer"

	"github.com/ipfs/go-graphsync"
	gsimpl "github.com/ipfs/go-graphsync/impl"
)

// c07 checks link budgets on either side.
type c07 struct {
	c02
	side     string // "requestor" or "responder"
	global   uint64
	perReq   uint64
	n        uint64 // effective budget
	localAll bool   // requestor already holds everything (requestor side only)
	needed   int
	// a second request on the same nodes, after the first, with its own per-request budget
	req2    *Req
	perReq2 uint64
	dag2    *DAG
	earlier uint64 // a limit set by an earlier hook call for the same request (0 = none); the later call counts
	// the responder may lack some of the blocks: a link it cannot load is still a link it tried, and is charged
	holes bool
}

func newC07() Scenario { return &c07{c02: c02{prop: "C07"}} }

func (s *c07) Name() string { return "budget/" + s.side }

func (s *c07) Build(w *World) {
	t := w.Tape
	drawProfile(w)
	s.dag = GenDAG(t, GenCfg{MaxBlocks: 2 + t.Draw(14), MaxDepth: 1 + t.Draw(4), Share: []int{0, 100, 300}[t.Draw(3)]})
	s.sel, s.selDesc = GenSelector(t, 6)
	csel, _ := CanonicalSelector(s.sel)
	s.side = []string{"requestor", "responder"}[t.Draw(2)]
	s.split = Split{Rq: map[cid.Cid]bool{}, Rs: map[cid.Cid]bool{}}
	s.holes = s.side == "responder" && t.Chance(350)
	for _, c := range s.dag.Order {
		s.split.Rs[c] = !s.holes || c.Equals(s.dag.Root.Cid) || !t.Chance(300)
	}
	held := func(path string, c cid.Cid) ([]byte, bool) {
		if !s.split.Rs[c] {
			return nil, false
		}
		return s.dag.Blocks[c], true
	}
	ref := Ref(s.dag.Root, csel, held, 0)
	s.needed = len(ref.Loads)
	// the N dimension is enumerated around the interesting points
	pick := func() uint64 {
		cands := []int{1, 2, s.needed - 1, s.needed, s.needed + 1, s.needed + 10, 3}
		v := cands[t.Draw(len(cands))]
		if v < 1 {
			v = 1
		}
		return uint64(v)
	}
	switch t.Draw(3) {
	case 0:
		s.global = pick()
	case 1:
		s.perReq = pick()
	default:
		s.global, s.perReq = pick(), pick()
	}
	s.n = s.global
	if s.n == 0 || (s.perReq != 0 && s.perReq < s.n) {
		s.n = s.perReq
	}
	s.localAll = s.side == "requestor" && t.Chance(400)
	for _, c := range s.dag.Order {
		if s.localAll {
			s.split.Rq[c] = true
		}
	}
	acfg := NodeCfg{GateReads: true, GateCommits: true}
	bcfg := NodeCfg{GateReads: true, GateCommits: true}
	if s.global > 0 {
		if s.side == "requestor" {
			acfg.Opts = append(acfg.Opts, gsimpl.MaxLinksPerOutgoingRequests(s.global))
		} else {
			bcfg.Opts = append(bcfg.Opts, gsimpl.MaxLinksPerIncomingRequests(s.global))
		}
	}
	s.a = NewNode(w, "A", acfg)
	s.b = NewNode(w, "B", bcfg)
	populate(s.a, s.dag, s.split.Rq)
	populate(s.b, s.dag, s.split.Rs)
	s.req = s.a.NewReq("r1", s.b, s.dag.Root, s.sel)
	if !s.localAll && t.Chance(500) {
		// budgets are per request: what the first one was given must not leak into the second
		s.dag2 = GenDAG(t, GenCfg{MaxBlocks: 2 + t.Draw(14), MaxDepth: 1 + t.Draw(4), BlockPad: 9})
		for _, c := range s.dag2.Order {
			s.b.Store.Put(c, s.dag2.Blocks[c])
		}
		s.req2 = s.a.NewReq("r2", s.b, s.dag2.Root, s.sel)
		if t.Chance(500) {
			s.perReq2 = pick()
		}
	}
	perReqOf := func(id graphsync.RequestID) uint64 {
		if s.req2 != nil && id == s.req2.ID {
			return s.perReq2
		}
		return s.perReq
	}
	// a limit may be set more than once for a request (a general hook, then a more specific one): the last call counts
	earlier := uint64(0)
	if t.Chance(300) {
		earlier = uint64(1 + t.Draw(20))
	}
	s.earlier = earlier
	if s.side == "requestor" {
		s.a.OnOutgoingRequest = func(p peer.ID, r graphsync.RequestData, a graphsync.OutgoingRequestHookActions) {
			if n := perReqOf(r.ID()); n > 0 {
				if earlier > 0 {
					a.MaxLinks(earlier)
				}
				a.MaxLinks(n)
			}
		}
	} else {
		s.b.OnIncomingRequest = func(p peer.ID, r graphsync.RequestData, a graphsync.IncomingRequestHookActions) {
			if n := perReqOf(r.ID()); n > 0 {
				if earlier > 0 {
					a.MaxLinks(earlier)
				}
				a.MaxLinks(n)
			}
		}
	}
	w.AddProvider(func() []*Event {
		if !s.req.Issued {
			return []*Event{s.req.IssueEvent()}
		}
		if s.req2 != nil && !s.req2.Issued && s.req.Done() {
			return []*Event{s.req2.IssueEvent()}
		}
		return nil
	})
}

func (s *c07) Describe(w *World) string {
	second := ""
	if s.req2 != nil {
		second = fmt.Sprintf(" then r2 perReq=%d", s.perReq2)
	}
	return fmt.Sprintf("side=%s holes=%v earlier=%d global=%d perReq=%d N=%d needed=%d localAll=%v dag=%d sel=%s%s", s.side, s.holes, s.earlier, s.global, s.perReq, s.n, s.needed, s.localAll, len(s.dag.Order), s.selDesc, second)
}

func (s *c07) Done(w *World) bool {
	return s.req.Done() && (s.req2 == nil || s.req2.Done())
}

func budgetErr(errs []error) (n int, others []string) {
	for _, e := range errs {
		var be *traversal.ErrBudgetExceeded
		if errors.As(e, &be) {
			n++
		} else {
			others = append(others, fmt.Sprintf("%T:%v", e, e))
		}
	}
	return
}

func (s *c07) Final(w *World) *Violation {
	if v := s.finalFor(w, s.req, s.n); v != nil {
		return v
	}
	if s.req2 != nil {
		n2 := s.global
		if n2 == 0 || (s.perReq2 != 0 && s.perReq2 < n2) {
			n2 = s.perReq2
		}
		saveDag := s.dag
		s.dag = s.dag2
		v := s.finalFor(w, s.req2, n2)
		s.dag = saveDag
		if v != nil {
			v.Signature = "second-request:" + v.Signature
			return v
		}
	}
	return nil
}

// finalFor checks one request against the budget that applies to it (0 = none).
func (s *c07) finalFor(w *World, rq *Req, budget uint64) *Violation {
	saveReq, saveN := s.req, s.n
	s.req, s.n = rq, budget
	defer func() { s.req, s.n = saveReq, saveN }()
	if budget == 0 {
		s.n = 1 << 40 // no budget applies: it must behave as with an unlimited one
	}
	return s.finalOne(w)
}

func (s *c07) finalOne(w *World) *Violation {
	if !s.req.Done() {
		return &Violation{Property: "C07", Rule: "R0", Signature: "not-terminated", Detail: "request did not finish"}
	}
	csel, _ := CanonicalSelector(s.sel)
	full := func(path string, c cid.Cid) ([]byte, bool) { b, ok := s.dag.Blocks[c]; return b, ok }
	ref := Ref(s.dag.Root, csel, full, 0)
	needed := len(ref.Loads)
	N := int(s.n)
	sigSide := s.side
	if s.side == "requestor" {
		// blocks loaded for the request at the requestor = incoming block hook calls
		loaded := 0
		for _, h := range s.a.InBlocks {
			if h.Req == s.req.ID {
				loaded++
			}
		}
		nb, others := budgetErr(s.req.Errs)
		if loaded > N {
			return &Violation{Property: "C07", Rule: "R1", Signature: sigSide + "/over-budget", Detail: fmt.Sprintf("loaded %d blocks with budget %d", loaded, N)}
		}
		if needed <= N {
			if i, ok := visitsEqual(s.req.Visits, ref.Visits); !ok || nb > 0 || len(others) > 0 {
				return &Violation{Property: "C07", Rule: "R2", Signature: fmt.Sprintf("%s/budget-caused-failure/N=%s", sigSide, nClass(N, needed)), Detail: fmt.Sprintf("needed %d <= budget %d but visits differ at %d (got %d want %d), budget errors %d, other errors %v", needed, N, i, len(s.req.Visits), len(ref.Visits), nb, others)}
			}
			return nil
		}
		if loaded != N {
			return &Violation{Property: "C07", Rule: "R3", Signature: fmt.Sprintf("%s/not-exactly-N/N=%s", sigSide, nClass(N, needed)), Detail: fmt.Sprintf("needed %d > budget %d: loaded %d blocks, want exactly %d", needed, N, loaded, N)}
		}
		if nb == 0 {
			return &Violation{Property: "C07", Rule: "R3", Signature: sigSide + "/no-budget-error", Detail: fmt.Sprintf("needed %d > budget %d but no budget-exceeded error; errors %v", needed, N, others)}
		}
		return nil
	}
	// responder side: count what it loaded (outgoing block hook calls) and what it put on the wire
	loaded := 0
	for _, h := range s.b.OutBlocks {
		if h.Req == s.req.ID {
			loaded++
		}
	}
	out := ResponderOutput(w.Net.WireFor("B", "A"), s.req.ID)
	if s.holes && s.req == s.reqFirst() {
		return s.finalHoles(w, out, loaded, N)
	}
	if loaded > N {
		return &Violation{Property: "C07", Rule: "R1", Signature: sigSide + "/over-budget", Detail: fmt.Sprintf("responder loaded %d blocks with budget %d", loaded, N)}
	}
	last := graphsync.ResponseStatusCode(0)
	if len(out.Statuses) > 0 {
		last = out.Statuses[len(out.Statuses)-1]
	}
	if needed <= N {
		if i, ok := visitsEqual(s.req.Visits, ref.Visits); !ok || last != graphsync.RequestCompletedFull {
			return &Violation{Property: "C07", Rule: "R2", Signature: fmt.Sprintf("%s/budget-caused-failure/N=%s", sigSide, nClass(N, needed)), Detail: fmt.Sprintf("needed %d <= budget %d but final status %d, visits differ at %d (got %d want %d), errors %v", needed, N, last, i, len(s.req.Visits), len(ref.Visits), s.req.Errs)}
		}
		return nil
	}
	if loaded != N || len(out.Entries) != N {
		return &Violation{Property: "C07", Rule: "R3", Signature: fmt.Sprintf("%s/not-exactly-N/N=%s", sigSide, nClass(N, needed)), Detail: fmt.Sprintf("needed %d > budget %d: responder loaded %d blocks and sent %d metadata entries, want exactly %d", needed, N, loaded, len(out.Entries), N)}
	}
	if last != graphsync.RequestFailedUnknown {
		return &Violation{Property: "C07", Rule: "R3", Signature: sigSide + "/wrong-terminal-status", Detail: fmt.Sprintf("needed %d > budget %d but terminal status %d", needed, N, last)}
	}
	return nil
}

func (s *c07) reqFirst() *Req { return s.a.Reqs["r1"] }

// finalHoles: the responder lacks some blocks. The budget is a link budget: every link the traversal tries to load
// is charged, found or not, and each one is a metadata entry of the response. The reference is the plain walk over
// the responder's partial store.
func (s *c07) finalHoles(w *World, out RespOutput, loaded, N int) *Violation {
	csel, _ := CanonicalSelector(s.sel)
	ref := Ref(s.dag.Root, csel, func(path string, c cid.Cid) ([]byte, bool) {
		if !s.split.Rs[c] {
			return nil, false
		}
		return s.dag.Blocks[c], true
	}, 0)
	needed, missed := len(ref.Loads), 0
	for _, l := range ref.Loads {
		if !l.Found {
			missed++
		}
	}
	w.Probe("c07-responder-lacks-blocks")
	last := graphsync.ResponseStatusCode(0)
	if len(out.Statuses) > 0 {
		last = out.Statuses[len(out.Statuses)-1]
	}
	if len(out.Entries) > N || loaded > N {
		return &Violation{Property: "C07", Rule: "R1", Signature: "responder/over-budget:some-blocks-missing", Detail: fmt.Sprintf("responder tried %d links (%d blocks found) with budget %d; the walk over its store tries %d links, %d of them missing", len(out.Entries), loaded, N, needed, missed)}
	}
	if needed <= N {
		want := graphsync.RequestCompletedFull
		if missed > 0 {
			want = graphsync.RequestCompletedPartial
		}
		if last != want || len(out.Entries) != needed {
			return &Violation{Property: "C07", Rule: "R2", Signature: fmt.Sprintf("responder/budget-caused-failure:some-blocks-missing/N=%s", nClass(N, needed)), Detail: fmt.Sprintf("the walk tries %d links (%d missing) <= budget %d but the response has %d entries and final status %d (want %d)", needed, missed, N, len(out.Entries), last, want)}
		}
		return nil
	}
	w.Probe("c07-budget-runs-out-after-a-missing-block")
	if len(out.Entries) != N {
		return &Violation{Property: "C07", Rule: "R3", Signature: fmt.Sprintf("responder/not-exactly-N:some-blocks-missing/N=%s", nClass(N, needed)), Detail: fmt.Sprintf("the walk tries %d links > budget %d: responder tried %d, want exactly %d", needed, N, len(out.Entries), N)}
	}
	if last != graphsync.RequestFailedUnknown {
		return &Violation{Property: "C07", Rule: "R3", Signature: "responder/wrong-terminal-status:some-blocks-missing", Detail: fmt.Sprintf("the walk tries %d links > budget %d but terminal status %d", needed, N, last)}
	}
	return nil
}

// nClass names where N sits, for stable signatures.
func nClass(n, needed int) string {
	switch {
	case n == 1:
		return "1"
	case n == needed:
		return "needed"
	case n == needed-1:
		return "needed-1"
	case n > needed:
		return ">needed"
	}
	return "other"
}
