package sim

import (
	"fmt"
	"sort"
	"strings"

	"github.com/ipfs/go-cid"

	"github.com/ipfs/go-graphsync"
	gsmsg "github.com/ipfs/go-graphsync/message"
)

// MdEntry is one link-metadata entry seen on the wire.
type MdEntry struct {
	Cid    cid.Cid
	Action graphsync.LinkAction
}

func ResponseMetadata(r gsmsg.GraphSyncResponse) []MdEntry {
	var out []MdEntry
	r.Metadata().Iterate(func(c cid.Cid, a graphsync.LinkAction) {
		out = append(out, MdEntry{c, a})
	})
	return out
}

func actionLetter(a graphsync.LinkAction) string {
	switch a {
	case graphsync.LinkActionPresent:
		return "P"
	case graphsync.LinkActionMissing:
		return "M"
	case graphsync.LinkActionDuplicateNotSent:
		return "D"
	case graphsync.LinkActionDuplicateDAGSkipped:
		return "S"
	}
	return "?" + string(a)
}

// SummarizeMsg renders a decoded message canonically (used in the event log).
func SummarizeMsg(f *Fabric, m gsmsg.GraphSyncMessage) string {
	var parts []string
	reqs := m.Requests()
	sort.Slice(reqs, func(i, j int) bool { return string(reqs[i].ID().Bytes()) < string(reqs[j].ID().Bytes()) })
	for _, r := range reqs {
		s := fmt.Sprintf("req{%s %s", shortReq(r.ID()), r.Type())
		if r.Type() == graphsync.RequestTypeNew {
			s += " root=" + shortCid(r.Root())
		}
		if ns := extNames(r.ExtensionNames()); len(ns) > 0 {
			s += " ext=" + strings.Join(ns, ",")
		}
		parts = append(parts, s+"}")
	}
	resps := m.Responses()
	sort.Slice(resps, func(i, j int) bool {
		return string(resps[i].RequestID().Bytes()) < string(resps[j].RequestID().Bytes())
	})
	for _, r := range resps {
		s := fmt.Sprintf("resp{%s st=%d md=[", shortReq(r.RequestID()), r.Status())
		for i, e := range ResponseMetadata(r) {
			if i > 0 {
				s += " "
			}
			s += shortCid(e.Cid) + ":" + actionLetter(e.Action)
		}
		s += "]"
		if ns := extNames(r.ExtensionNames()); len(ns) > 0 {
			s += " ext=" + strings.Join(ns, ",")
		}
		parts = append(parts, s+"}")
	}
	blks := m.Blocks()
	bs := make([]string, 0, len(blks))
	for _, b := range blks {
		bs = append(bs, shortCid(b.Cid()))
	}
	sort.Strings(bs)
	if len(bs) > 0 {
		parts = append(parts, "blocks["+strings.Join(bs, " ")+"]")
	}
	return strings.Join(parts, " ")
}

// WireFor returns the decoded messages sent from one node to another, in order.
func (f *Fabric) WireFor(from, to string) []*WireMsg {
	f.mu.Lock()
	defer f.mu.Unlock()
	var out []*WireMsg
	for _, m := range f.Wire {
		if m.From == from && m.To == to {
			out = append(out, m)
		}
	}
	return out
}
