package sim

import (
	"errors"
	"fmt"

	"github.com/ipfs/go-cid"
	"github.com/ipld/go-ipld-prime/node/basicnode"
	"github.com/libp2p/go-libp2p/core/peer"

	"github.com/ipfs/go-graphsync"
	gsimpl "github.com/ipfs/go-graphsync/impl"
	gsmsg "github.com/ipfs/go-graphsync/message"
)

// c10: a second peer sends cancel / update / new-request messages carrying the
// request IDs of responses the responder serves to the first peer.
type c10 struct {
	pops []c10pop
	c02
	t      *Scripted
	script *Script
	kinds  []string
	pause  bool // the genuine response is paused by a block hook for a while (so that "paused" is among the phases hit)
	paused bool
	// the other peer may also come first: its request under the ID is refused (or served)
	// before the first peer's request with the same ID arrives
	early   bool
	refuseT bool
	// a responder with a single worker kept busy by an earlier request of the first peer:
	// whatever either peer sends next waits in the task queue
	busy        *Req
	busyDag     *DAG
	staleFail   bool // coherent variant of the failing-sends family (see Build)
	staleTask   bool // coherent variant: the other peer queues and cancels a request under the ID before the first peer uses it
	unpausedAt  int  // step at which the responder's operator resumed the first peer's response (0 = not yet)
	pausedAtMsg int
}

func newC10() Scenario { return &c10{c02: c02{prop: "C10"}} }

func (s *c10) Name() string { return "second-peer-requests" }

func (s *c10) Build(w *World) {
	t := w.Tape
	drawProfile(w)
	w.OnYieldSite = func(site, detail, node string, obj any) {
		if site == "taskqueue.afterPop" && node == "" {
			if id, ok := obj.(graphsync.RequestID); ok && s.req != nil && id == s.req.ID {
				w.mu.Lock()
				s.pops = append(s.pops, c10pop{peer: w.Net.Name(peer.ID(detail)), step: w.Step})
				w.mu.Unlock()
			}
		}
	}
	// lock-yield build: in a third of the runs (tape digest) a goroutine may be held just before it hands a message
	// to the manager's event loop (points before the calls of send in responsemanager/client.go)
	if w.Tape.Digest()%3 == 0 {
		w.EnableLockYields("responsemanager/client.go")
	}
	s.dag = GenDAG(t, GenCfg{MaxBlocks: 3 + t.Draw(14), MaxDepth: 2 + t.Draw(4), BlockPad: []int{0, 0, 40}[t.Draw(3)], Share: []int{0, 100, 300}[t.Draw(3)]})
	s.sel, s.selDesc = AllSelector(int64(2+t.Draw(8))), "all"
	s.split = Split{Rq: map[cid.Cid]bool{}, Rs: map[cid.Cid]bool{}}
	for _, c := range s.dag.Order {
		s.split.Rs[c] = true
	}
	cfg := NodeCfg{GateReads: true, GateCommits: true}
	s.a = NewNode(w, "A", cfg)
	bcfg := cfg
	oneWorker := t.Chance(300)
	// sends to the other peer may fail for good (its messages are abandoned, their failure is reported later)
	failT := !oneWorker && t.Chance(300)
	if failT {
		bcfg.Opts = append(bcfg.Opts, gsimpl.MessageSendRetries(2)) // (one attempt may be used up by a stream that idled out)
		w.Net.SendFaults = []string{"fail"}
		w.Net.SendFaultPairs = map[string]bool{"B>T": true}
		w.Prof.FaultPm = map[string]int{"send": 500}
		w.Prof.FaultBudget = 2 + t.Draw(3)
	}
	if oneWorker {
		bcfg.Opts = append(bcfg.Opts, gsimpl.MaxInProgressIncomingRequests(1))
	}
	s.b = NewNode(w, "B", bcfg)
	populate(s.b, s.dag, s.split.Rs)
	s.t = NewScripted(w, "T")
	if oneWorker {
		s.busyDag = GenDAG(t, GenCfg{MaxBlocks: 4 + t.Draw(6), MaxDepth: 2, BlockPad: 21})
		for _, c := range s.busyDag.Order {
			s.b.Store.Put(c, s.busyDag.Blocks[c])
		}
		s.busy = s.a.NewReq("r0", s.b, s.busyDag.Root, AllSelector(6))
		w.Prof.Weights["load"] = 1 // loads are slow: the worker stays busy
	}
	s.req = s.a.NewReq("r1", s.b, s.dag.Root, s.sel)
	s.pause = t.Chance(300)
	if oneWorker && t.Chance(500) {
		s.staleTask = true
		s.pause = true
	}
	if s.pause {
		at := int64(1 + t.Draw(4))
		s.b.OnOutgoingBlock = func(p peer.ID, r graphsync.RequestData, b graphsync.BlockData, a graphsync.OutgoingBlockHookActions) {
			if w.Net.Name(p) == "A" && r.ID() == s.req.ID && b.Index() == at && !s.paused {
				s.paused = true
				a.PauseResponse()
			}
		}
	}
	// an update hook that would act on any update it is shown
	s.b.OnRequestUpdated = func(p peer.ID, r graphsync.RequestData, u graphsync.RequestData, a graphsync.RequestUpdatedHookActions) {
		a.SendExtensionData(graphsync.ExtensionData{Name: "sim/update-seen", Data: basicnode.NewString("u")})
	}
	s.early = t.Chance(300) || s.staleTask || (failT && t.Chance(700))
	// coherent variant of the failing-sends family: the other peer is served under the ID, cancels, and only
	// then do the sends of its abandoned response fail - by which time the first peer may hold the ID
	s.staleFail = failT && s.early && t.Chance(600)
	if s.staleFail {
		w.Prof.FaultPm["send"] = 850
	}
	s.refuseT = t.Chance(500) && !s.staleTask && !s.staleFail
	if s.refuseT {
		s.b.OnIncomingRequest = func(p peer.ID, r graphsync.RequestData, a graphsync.IncomingRequestHookActions) {
			if w.Net.Name(p) == "T" {
				a.TerminateWithError(errors.New("sim: the other peer is not served"))
			}
		}
	}
	s.script = NewScript(w, "T")
	// the quantifier is over request IDs in use by the first peer's responses:
	// the second peer starts once the responder has the first peer's request
	s.script.Ready = func(int) bool {
		if s.busy != nil {
			// the single worker must be occupied by the earlier request first
			running := false
			s.b.mu.Lock()
			for _, h := range s.b.Processing {
				if h.Req == s.busy.ID && h.Kind == "in-processing" {
					running = true
				}
			}
			s.b.mu.Unlock()
			if s.staleTask {
				return running && !s.busy.Done()
			}
			if !running && !s.busy.Done() {
				return false
			}
		}
		if s.early {
			return true
		}
		s.b.mu.Lock()
		defer s.b.mu.Unlock()
		for _, h := range s.b.Incoming {
			if h.Req == s.req.ID && h.Peer == "A" {
				return true
			}
		}
		return false
	}
	n := 1 + t.Draw(4)
	if s.staleTask || s.staleFail {
		n = 2
	}
	for i := 0; i < n; i++ {
		var rq gsmsg.GraphSyncRequest
		k := t.Draw(3)
		if s.staleTask || s.staleFail {
			k = []int{2, 0}[i] // new, then cancel
		}
		switch k {
		case 0:
			rq = gsmsg.NewCancelRequest(s.req.ID)
			s.kinds = append(s.kinds, "cancel")
		case 1:
			rq = gsmsg.NewUpdateRequest(s.req.ID, graphsync.ExtensionData{Name: "sim/u", Data: basicnode.NewString("x")})
			s.kinds = append(s.kinds, "update")
		default:
			root := s.dag.Order[t.Draw(len(s.dag.Order))]
			rq = gsmsg.NewRequest(s.req.ID, root, AllSelector(3), graphsync.Priority(1))
			s.kinds = append(s.kinds, "new")
		}
		m := gsmsg.NewMessage(map[graphsync.RequestID]gsmsg.GraphSyncRequest{s.req.ID: rq}, nil, nil)
		s.script.Add(func() { s.t.Send(s.b.ID, m) })
	}
	w.AddProvider(func() []*Event {
		if s.busy != nil && !s.busy.Issued {
			return []*Event{s.busy.IssueEvent()}
		}
		if !s.req.Issued {
			if s.staleTask || s.staleFail {
				// the first peer comes after the other peer's request and cancel have reached the responder
				delivered := 0
				for _, wm := range w.Net.WireFor("T", "B") {
					if wm.Delivered != 0 {
						delivered++
					}
				}
				if !s.script.Done() || delivered < 2 {
					return nil
				}
			}
			return []*Event{s.req.IssueEvent()}
		}
		return nil
	})
}

func (s *c10) Describe(w *World) string {
	return fmt.Sprintf("%s pause=%v intruder=%v early=%v refuseT=%v stale=%v", s.c02.Describe(w), s.pause, s.kinds, s.early, s.refuseT, s.staleTask)
}

func (s *c10) Done(w *World) bool {
	return s.req.Done() && (s.busy == nil || s.busy.Done()) && s.script.Done() && w.Quiet()
}

func (s *c10) Heal(w *World) { w.Net.Heal() }

// NextPhase: the genuine owner of the paused response resumes it (the
// responder's operator unpauses); the intruder must not have been able to.
func (s *c10) NextPhase(w *World, phase int) bool {
	if phase > 1 || !s.pause || s.req.Done() {
		return false
	}
	s.unpausedAt = w.Step
	w.Sync(func() { _ = s.b.GS.Unpause(w.T.Context(), s.req.ID) })
	return true
}

// otherPeerResentID: the other peer sent a new request under the ID while its own
// earlier request under that ID was still in the responder's table.
func (s *c10) otherPeerResentID() bool {
	var calls []int
	for _, h := range s.b.Incoming {
		if h.Req == s.req.ID && h.Peer == "T" {
			calls = append(calls, h.Step)
		}
	}
	retired := func(from, to int) bool {
		for _, l := range [][]RespEvent{s.b.Completed, s.b.Cancelled, s.b.NetErrs} {
			for _, e := range l {
				if e.Req == s.req.ID && e.Peer == "T" && e.Step >= from && e.Step <= to {
					return true
				}
			}
		}
		return false
	}
	for i := 1; i < len(calls); i++ {
		if !retired(calls[i-1], calls[i]) {
			return true
		}
	}
	return false
}

func (s *c10) Final(w *World) *Violation {
	if s.early {
		// the ID was in use by the other peer when the first peer's request arrived: that
		// request is not served at all (first user of an ID keeps it until retired), so
		// there is no response to the first peer that could be altered
		seen := false
		for _, h := range s.b.Incoming {
			if h.Req == s.req.ID && h.Peer == "A" {
				seen = true
			}
		}
		if !seen {
			w.Probe("c10-first-peer-request-ignored-id-in-use")
			return nil
		}
		w.Probe("c10-other-peer-first")
	}
	// R2: listener outcomes for A's response: completed once, successfully; never cancelled
	nCompleted, nCancelled := 0, 0
	var st graphsync.ResponseStatusCode
	for _, e := range s.b.Completed {
		if e.Req == s.req.ID && e.Peer == "A" {
			nCompleted++
			st = e.Status
		}
	}
	for _, e := range s.b.Cancelled {
		// (once A's response is retired the ID is free: a request the other peer
		// then makes under it, and cancels, is its own business)
		if e.Req == s.req.ID && e.Peer == "A" {
			nCancelled++
		}
	}
	if nCancelled > 0 {
		return &Violation{Property: "C10", Rule: "R2", Signature: "response-cancelled-by-other-peer" + s.staleTaskTag(w), Detail: fmt.Sprintf("requestor-cancelled listener fired %d time(s) for the response served to A although A never cancelled", nCancelled)}
	}
	nUpd := 0
	for _, h := range s.b.Updates {
		if h.Req == s.req.ID && h.Peer == "A" {
			nUpd++
		}
	}
	if nUpd > 0 {
		return &Violation{Property: "C10", Rule: "R1", Signature: "update-from-other-peer-processed", Detail: fmt.Sprintf("the request-updated hook ran %d time(s) for the response served to A; only the other peer sent updates", nUpd)}
	}
	// R1c: nothing runs on behalf of a request of the other peer that has been retired
	// (it would be running against whoever holds the ID now)
	for _, h := range s.b.OutBlocks {
		if h.Req != s.req.ID || h.Peer != "T" {
			continue
		}
		// only while the first peer's response holds the ID
		aFrom, aTo := -1, 1<<30
		for _, in := range s.b.Incoming {
			if in.Req == s.req.ID && in.Peer == "A" && aFrom < 0 {
				aFrom = in.Step
			}
		}
		for _, l := range [][]RespEvent{s.b.Completed, s.b.Cancelled, s.b.NetErrs} {
			for _, e := range l {
				if e.Req == s.req.ID && e.Peer == "A" && e.Step < aTo {
					aTo = e.Step
				}
			}
		}
		if aFrom < 0 || h.Step < aFrom || h.Step > aTo {
			continue
		}
		t0 := -1
		for _, in := range s.b.Incoming {
			if in.Req == s.req.ID && in.Peer == "T" && in.Step <= h.Step && in.Step > t0 {
				t0 = in.Step
			}
		}
		for _, l := range [][]RespEvent{s.b.Completed, s.b.Cancelled, s.b.NetErrs} {
			for _, e := range l {
				if e.Req == s.req.ID && e.Peer == "T" && e.Step > t0 && e.Step < h.Step {
					sig := "traversal-on-behalf-of-retired-request"
					if s.otherPeerResentID() {
						sig = "other-peer-resent-id-in-use:" + sig
					}
					for _, pp := range s.pops {
						if pp.peer == "T" && pp.step >= t0 && pp.step <= e.Step {
							// a worker had already taken T's task when T's response was retired, and asked for the
							// task's data only after the first peer had been given the ID
							sig += ":task-in-a-workers-hands-when-retired"
							break
						}
					}
					return &Violation{Property: "C10", Rule: "R1", Signature: sig, Detail: fmt.Sprintf("outgoing block hook called for peer T (block #%d, step %d) although T's request under the ID was retired at step %d and T sent no new one: the traversal runs against the response that holds the ID now", h.Index, h.Step, e.Step)}
				}
			}
		}
	}
	// R1b: a response paused for the first peer stays paused until the responder's operator resumes it
	if s.paused {
		pausedMsg := -1
		for mi, wm := range w.Net.WireFor("B", "A") {
			if wm.Err != nil {
				continue
			}
			for _, r := range wm.Msg.Responses() {
				if r.RequestID() != s.req.ID {
					continue
				}
				if pausedMsg >= 0 && mi > pausedMsg && (s.unpausedAt == 0 || wm.Step < s.unpausedAt) && len(ResponseMetadata(r)) > 0 {
					return &Violation{Property: "C10", Rule: "R1", Signature: "paused-response-carried-on", Detail: fmt.Sprintf("the response to A was paused (message %d) and nobody entitled resumed it, yet message %d (step %d) carries %d more links of it", pausedMsg, mi, wm.Step, len(ResponseMetadata(r)))}
				}
				if r.Status() == graphsync.RequestPaused && pausedMsg < 0 {
					pausedMsg = mi
				}
			}
		}
	}
	// R1: what A got is exactly the reference
	snap := s.a.Store.Snapshot()
	if s.busyDag != nil {
		// (the earlier request's blocks are its own; the two DAGs share none)
		for c := range s.busyDag.Blocks {
			delete(snap, c)
		}
	}
	if v := checkSingle("C10", s.req, s.dag, s.sel, s.split, snap); v != nil {
		v.Rule = "R1"
		v.Signature = "response-to-first-peer-changed:" + v.Signature
		if s.otherPeerResentID() {
			// input class of a recorded finding (the one recorded under C23): a new request
			// re-using an ID its sender's own response still holds replaces that table entry
			v.Signature = "other-peer-resent-id-in-use:" + v.Signature
		}
		v.Signature += s.staleTaskTag(w)
		return v
	}
	// (a response paused after the requestor already had everything it needed is
	// not followed to its end here: the requestor has gone)
	if !s.paused && (nCompleted != 1 || !st.IsSuccess()) {
		return &Violation{Property: "C10", Rule: "R2", Signature: "completion-outcome-changed" + s.staleTaskTag(w), Detail: fmt.Sprintf("completed listener for A's response fired %d time(s), last status %d", nCompleted, st)}
	}
	// R3: the intruder's colliding request never makes the responder talk to A about it
	out := ResponderOutput(w.Net.WireFor("B", "A"), s.req.ID)
	terminals := 0
	for _, x := range out.Statuses {
		if x.IsTerminal() {
			terminals++
		}
	}
	if !s.paused && terminals != 1 {
		return &Violation{Property: "C10", Rule: "R3", Signature: "extra-terminal-status-to-first-peer" + s.staleTaskTag(w), Detail: fmt.Sprintf("A was sent %d terminal statuses for its request: %v", terminals, out.Statuses)}
	}
	return nil
}

// c10pop: a worker took a task of the contested request ID for this peer at this step.
type c10pop struct {
	peer string
	step int
}

// staleTaskTag: input class of a recorded finding - a worker had taken the other peer's task for the contested ID
// before that peer's response was retired, the first peer was given the ID afterwards, and the run is one in which
// the worker can be overtaken before it asks for the task's data (call-yield points of responsemanager/client.go).
func (s *c10) staleTaskTag(w *World) string {
	if !w.Yields["call:responsemanager/client.go"] {
		return ""
	}
	tRet, aIn := 1<<30, -1
	for _, l := range [][]RespEvent{s.b.Completed, s.b.Cancelled, s.b.NetErrs} {
		for _, e := range l {
			if e.Req == s.req.ID && e.Peer == "T" && e.Step < tRet {
				tRet = e.Step
			}
		}
	}
	for _, in := range s.b.Incoming {
		if in.Req == s.req.ID && in.Peer == "A" && aIn < 0 {
			aIn = in.Step
		}
	}
	for _, pp := range s.pops {
		if pp.peer == "T" && pp.step <= tRet && tRet <= aIn {
			return ":task-in-a-workers-hands-when-retired"
		}
	}
	return ""
}
