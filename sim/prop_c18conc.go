package sim

import (
	"fmt"

	"github.com/ipfs/go-graphsync/notifications"
)

// c18conc: several goroutines use one publisher at the same time (message queues, response subscribers and the
// peer manager do). Each caller has a script of its own; the scheduler decides when each call starts and, in the
// lock-yield build (notifications/publisher.go), where inside the publisher it is overtaken; subscriber callbacks
// are gates as in the sequential family. The oracle keeps to what holds for every order in which overlapping calls
// may take effect:
//   - a subscription that was accepted (Subscribe returned true) is told exactly once that it has ended, at the
//     latest by the final shutdown, and receives nothing afterwards; one that was not accepted hears nothing;
//   - a subscriber receives only events published on that topic, each at most once, and the events of one
//     publishing caller in the order that caller published them;
//   - an event whose Publish began after the Subscribe had returned and returned before any call that ends the
//     subscription (Unsubscribe, Close of the topic, Shutdown) began is received.
type c18conc struct {
	p        notifications.Publisher
	subs     []*pubSub
	plans    [][]pubOp
	seq      int
	done     int
	finished bool
	descr    string
	// stamps
	subRet   map[[2]string]int  // (sub, topic) -> Subscribe returned at (accepted only)
	refused  map[[2]string]bool // Subscribe returned false
	pubCall  map[string]int     // event -> Publish began
	pubRet   map[string]int
	pubTopic map[string]string
	pubBy    map[string]int
	pubOrder map[int]map[string][]string // caller -> topic -> events in program order
	endCall  map[[2]string]int           // (sub, topic) -> earliest start of a call that ends it ("*" wildcards resolved at check)
	unsubAt  map[string]int              // sub -> earliest Unsubscribe start
	closeAt  map[string]int              // topic -> earliest Close start
	shutAt   int
}

func newC18Conc() Scenario { return &c18conc{} }

func (s *c18conc) Name() string     { return "publisher-concurrent-callers" }
func (s *c18conc) Property() string { return "C18" }

func (s *c18conc) Build(w *World) {
	t := w.Tape
	w.Prof.Weights = map[string]int{"advance": 0, "hook": []int{1, 10, 40}[t.Draw(3)], "api": 10, "yield": 10}
	w.EnableLockYields("notifications/publisher.go") // (before the publisher's own goroutine starts)
	s.p = notifications.NewPublisher()
	s.p.Startup()
	nsub, ntop, ncall := 2+t.Draw(2), 1+t.Draw(2), 2+t.Draw(2)
	for i := 0; i < nsub; i++ {
		s.subs = append(s.subs, &pubSub{w: w, name: fmt.Sprintf("s%d", i), got: map[string][]string{}})
	}
	s.subRet, s.refused = map[[2]string]int{}, map[[2]string]bool{}
	s.pubCall, s.pubRet, s.pubTopic, s.pubBy = map[string]int{}, map[string]int{}, map[string]string{}, map[string]int{}
	s.pubOrder, s.unsubAt, s.closeAt = map[int]map[string][]string{}, map[string]int{}, map[string]int{}
	used := map[[2]int]bool{}
	ev := 0
	for c := 0; c < ncall; c++ {
		s.pubOrder[c] = map[string][]string{}
		var plan []pubOp
		for k := 0; k < 1+t.Draw(5); k++ {
			tp := t.Draw(ntop)
			topic := fmt.Sprintf("t%d", tp)
			switch x := t.Draw(20); {
			case x < 7:
				sb := t.Draw(nsub)
				if used[[2]int{sb, tp}] {
					continue // one subscription per (subscriber, topic) in a run
				}
				used[[2]int{sb, tp}] = true
				plan = append(plan, pubOp{kind: "sub", topic: topic, sub: sb})
			case x < 15:
				ev++
				plan = append(plan, pubOp{kind: "pub", topic: topic, ev: fmt.Sprintf("e%d", ev)})
			case x < 16:
				plan = append(plan, pubOp{kind: "unsub", sub: t.Draw(nsub)})
			case x < 18:
				plan = append(plan, pubOp{kind: "close", topic: topic})
			default:
				plan = append(plan, pubOp{kind: "shutdown"})
			}
		}
		s.plans = append(s.plans, plan)
	}
	s.descr = fmt.Sprintf("subs=%d topics=%d callers=%d", nsub, ntop, ncall)
	stamp := func(m map[string]int, k string) {
		if _, ok := m[k]; !ok {
			m[k] = s.seq
		}
	}
	for c := range s.plans {
		c := c
		go func() {
			for i, op := range s.plans[c] {
				if w.Park("api", fmt.Sprintf("op|c%d|%02d", c, i)) == "abort" {
					return
				}
				s.seq++
				switch op.kind {
				case "sub":
					ok := s.p.Subscribe(op.topic, s.subs[op.sub])
					s.seq++
					key := [2]string{s.subs[op.sub].name, op.topic}
					if ok {
						s.subRet[key] = s.seq
					} else {
						s.refused[key] = true
					}
					w.Effect("c%d subscribe %s %s -> %v", c, s.subs[op.sub].name, op.topic, ok)
				case "pub":
					s.pubCall[op.ev], s.pubTopic[op.ev], s.pubBy[op.ev] = s.seq, op.topic, c
					s.pubOrder[c][op.topic] = append(s.pubOrder[c][op.topic], op.ev)
					s.p.Publish(op.topic, op.ev)
					s.seq++
					s.pubRet[op.ev] = s.seq
					w.Effect("c%d publish %s %s", c, op.topic, op.ev)
				case "unsub":
					stamp(s.unsubAt, s.subs[op.sub].name)
					s.p.Unsubscribe(s.subs[op.sub])
					w.Effect("c%d unsubscribe %s", c, s.subs[op.sub].name)
				case "close":
					stamp(s.closeAt, op.topic)
					s.p.Close(op.topic)
					w.Effect("c%d close %s", c, op.topic)
				case "shutdown":
					if s.shutAt == 0 {
						s.shutAt = s.seq
					}
					s.p.Shutdown()
					w.Effect("c%d shutdown", c)
				}
			}
			s.done++
			if s.done == len(s.plans) {
				// everybody has returned: the final shutdown
				s.seq++
				if s.shutAt == 0 {
					s.shutAt = s.seq
				}
				s.p.Shutdown()
				w.Effect("final shutdown")
				s.finished = true
			}
		}()
	}
	w.cleanup = append(w.cleanup, func() { s.p.Shutdown() })
}

func (s *c18conc) Describe(w *World) string      { return s.descr }
func (s *c18conc) Done(w *World) bool            { return s.finished && w.Quiet() }
func (s *c18conc) Heal(w *World)                 {}
func (s *c18conc) Invariant(w *World) *Violation { return nil }

func (s *c18conc) Final(w *World) *Violation {
	if !s.finished {
		return &Violation{Property: "C18", Rule: "R0", Signature: "not-terminated", Detail: "a call into the publisher never returned; " + s.descr}
	}
	for _, sb := range s.subs {
		sb.mu.Lock()
		got := map[string][]string{}
		for k, v := range sb.got {
			got[k] = append([]string(nil), v...)
		}
		sb.mu.Unlock()
		for topic, seq := range got {
			key := [2]string{sb.name, topic}
			_, accepted := s.subRet[key]
			if !accepted && len(seq) > 0 {
				return &Violation{Property: "C18", Rule: "R1", Signature: "extra-delivery:never-subscribed", Detail: fmt.Sprintf("%s got %v on %s without an accepted subscription; %s", sb.name, seq, topic, s.descr)}
			}
			seen := map[string]bool{}
			pos := map[int]int{} // publishing caller -> index of its next expected event on this topic
			for i, e := range seq {
				if e == "CLOSE" {
					if i != len(seq)-1 {
						sig := "delivery-after-end"
						if seq[i+1] == "CLOSE" {
							sig = "subscription-end-reported-twice"
						}
						return &Violation{Property: "C18", Rule: "R1", Signature: sig + ":concurrent-callers", Detail: fmt.Sprintf("%s on %s: %v; %s", sb.name, topic, seq, s.descr)}
					}
					continue
				}
				if s.pubTopic[e] != topic || seen[e] {
					return &Violation{Property: "C18", Rule: "R1", Signature: "extra-delivery:concurrent-callers", Detail: fmt.Sprintf("%s on %s got %s (published on %q, seen before: %v): %v; %s", sb.name, topic, e, s.pubTopic[e], seen[e], seq, s.descr)}
				}
				seen[e] = true
				by := s.pubBy[e]
				order := s.pubOrder[by][topic]
				k := pos[by]
				for k < len(order) && order[k] != e {
					k++
				}
				if k == len(order) {
					return &Violation{Property: "C18", Rule: "R1", Signature: "out-of-order:concurrent-callers", Detail: fmt.Sprintf("%s on %s: %s arrived after a later event of the same publisher: %v (that caller published %v); %s", sb.name, topic, e, seq, order, s.descr)}
				}
				pos[by] = k + 1
			}
		}
		// accepted subscriptions: told once that they ended; definite events received
		for key, ret := range s.subRet {
			if key[0] != sb.name {
				continue
			}
			seq := got[key[1]]
			if len(seq) == 0 || seq[len(seq)-1] != "CLOSE" {
				return &Violation{Property: "C18", Rule: "R1", Signature: "subscription-end-not-reported:concurrent-callers", Detail: fmt.Sprintf("Subscribe(%s, %s) returned true but the subscriber was never told that the subscription ended (got %v) although the publisher has been shut down; %s", key[1], sb.name, seq, s.descr)}
			}
			end := s.shutAt
			if v, ok := s.unsubAt[sb.name]; ok && v < end {
				end = v
			}
			if v, ok := s.closeAt[key[1]]; ok && v < end {
				end = v
			}
			have := map[string]bool{}
			for _, e := range seq {
				have[e] = true
			}
			for e, call := range s.pubCall {
				if s.pubTopic[e] == key[1] && call > ret && s.pubRet[e] != 0 && s.pubRet[e] < end && !have[e] {
					return &Violation{Property: "C18", Rule: "R1", Signature: "lost-delivery:concurrent-callers", Detail: fmt.Sprintf("%s subscribed to %s (returned at %d), %s was published during [%d,%d], nothing that ends the subscription began before %d, but it was not delivered: %v; %s", sb.name, key[1], ret, e, call, s.pubRet[e], end, seq, s.descr)}
				}
			}
			w.Probe("c18-concurrent-subscription-checked")
		}
	}
	return nil
}
