package sim

import (
	"errors"
	"fmt"

	blocks "github.com/ipfs/go-block-format"
	"github.com/ipfs/go-cid"
	"github.com/ipld/go-ipld-prime/node/basicnode"
	"github.com/libp2p/go-libp2p/core/peer"

	"github.com/ipfs/go-graphsync"
	gsmsg "github.com/ipfs/go-graphsync/message"
)

// c09: a third peer sends responses carrying the request's ID.
type c09 struct {
	c02
	t        *Scripted
	script   *Script
	hookMode string // error | update | none: how the requestor's response hook reacts to the marker extension
	nMsgs    int
	kinds    []string
}

func newC09() Scenario { return &c09{c02: c02{prop: "C09"}} }

func (s *c09) Name() string { return "third-peer-responses" }

var markerExt = graphsync.ExtensionData{Name: "sim/marker", Data: basicnode.NewString("intruder")}

func (s *c09) Build(w *World) {
	t := w.Tape
	drawProfile(w)
	s.dag = GenDAG(t, GenCfg{MaxBlocks: 3 + t.Draw(14), MaxDepth: 2 + t.Draw(4), BlockPad: []int{0, 0, 40}[t.Draw(3)], Share: []int{0, 100, 300}[t.Draw(3)]})
	s.sel, s.selDesc = AllSelector(int64(2+t.Draw(8))), "all"
	if t.Chance(300) {
		s.sel, s.selDesc = GenSelector(t, 8)
	}
	// responder complete, requestor a random subset: the genuine exchange is plain
	s.split = Split{Rq: map[cid.Cid]bool{}, Rs: map[cid.Cid]bool{}}
	rqPm := []int{0, 150, 400}[t.Draw(3)]
	for _, c := range s.dag.Order {
		s.split.Rs[c] = true
		if t.Chance(rqPm) {
			s.split.Rq[c] = true
		}
	}
	cfg := NodeCfg{GateReads: true, GateCommits: true}
	s.a = NewNode(w, "A", cfg)
	s.b = NewNode(w, "B", cfg)
	populate(s.a, s.dag, s.split.Rq)
	populate(s.b, s.dag, s.split.Rs)
	s.t = NewScripted(w, "T")
	s.req = s.a.NewReq("r1", s.b, s.dag.Root, s.sel)
	s.hookMode = []string{"error", "update", "none"}[t.Draw(3)]
	s.a.OnIncomingResponse = func(p peer.ID, r graphsync.ResponseData, a graphsync.IncomingResponseHookActions) {
		if _, has := r.Extension(markerExt.Name); !has {
			return
		}
		switch s.hookMode {
		case "error":
			a.TerminateWithError(errors.New("sim: application rejects marked response"))
		case "update":
			a.UpdateRequestWithExtensions(graphsync.ExtensionData{Name: "sim/reaction", Data: basicnode.NewString("r")})
		}
	}
	// the intruder's messages, released one by one by the scheduler
	s.script = NewScript(w, "T")
	s.script.Ready = func(int) bool { return s.req.Issued }
	s.nMsgs = 1 + t.Draw(5)
	statuses := []graphsync.ResponseStatusCode{graphsync.PartialResponse, graphsync.RequestCompletedFull, graphsync.RequestCompletedPartial, graphsync.RequestFailedUnknown, graphsync.RequestRejected, graphsync.RequestFailedContentNotFound, graphsync.RequestCancelled, graphsync.RequestPaused, graphsync.RequestFailedBusy}
	for i := 0; i < s.nMsgs; i++ {
		st := statuses[t.Draw(len(statuses))]
		var md []gsmsg.GraphSyncLinkMetadatum
		blks := map[cid.Cid]blocks.Block{}
		nmd := t.Draw(5)
		for k := 0; k < nmd; k++ {
			c := s.dag.Order[t.Draw(len(s.dag.Order))]
			act := []graphsync.LinkAction{graphsync.LinkActionPresent, graphsync.LinkActionMissing, graphsync.LinkActionDuplicateNotSent}[t.Draw(3)]
			md = append(md, gsmsg.GraphSyncLinkMetadatum{Link: c, Action: act})
			if act == graphsync.LinkActionPresent && t.Chance(700) {
				data := s.dag.Blocks[c]
				if t.Chance(200) {
					data = append([]byte("forged-"), data...)
				}
				b, _ := blocks.NewBlockWithCid(data, c)
				blks[b.Cid()] = b
			}
		}
		var exts []graphsync.ExtensionData
		if t.Chance(700) {
			exts = append(exts, markerExt)
		}
		resp := gsmsg.NewResponse(s.req.ID, st, md, exts...)
		m := gsmsg.NewMessage(nil, map[graphsync.RequestID]gsmsg.GraphSyncResponse{s.req.ID: resp}, blks)
		s.kinds = append(s.kinds, fmt.Sprintf("st%d/md%d/blk%d/ext%d", st, nmd, len(blks), len(exts)))
		s.script.Add(func() { s.t.Send(s.a.ID, m) })
	}
	w.AddProvider(func() []*Event {
		if !s.req.Issued {
			return []*Event{s.req.IssueEvent()}
		}
		return nil
	})
}

func (s *c09) Describe(w *World) string {
	return fmt.Sprintf("%s hook=%s intruder=%v", s.c02.Describe(w), s.hookMode, s.kinds)
}

func (s *c09) Done(w *World) bool {
	if !s.req.Done() || !s.script.Done() {
		return false
	}
	return w.Quiet()
}

func (s *c09) Final(w *World) *Violation {
	// R1: no hook of the requestor ran for the request on a message from the third peer
	for _, h := range s.a.Responses {
		// (once the request has ended there is no request left to affect: the hook
		// then runs for an unknown request ID, as it does for any stray response)
		if h.Req == s.req.ID && h.Peer == "T" && h.Held {
			return &Violation{Property: "C09", Rule: "R1", Signature: "response-hook-ran-for-third-peer", Detail: fmt.Sprintf("incoming response hook invoked for the request with sender T (status %d, step %d)", h.Status, h.Step)}
		}
	}
	for _, h := range s.a.InBlocks {
		if h.Req == s.req.ID && h.Peer == "T" {
			return &Violation{Property: "C09", Rule: "R1", Signature: "block-hook-ran-for-third-peer", Detail: "incoming block hook invoked with sender T"}
		}
	}
	// R3: nothing sent on the request's behalf because of the intruder
	// (a stray response for a request that has ended is answered like any stray
	// response, e.g. with the update its hook asks for; that is not on the request's behalf)
	over := 1 << 30
	for _, h := range s.a.Responses {
		if h.Req == s.req.ID && h.Peer == "T" && !h.Held && h.Step < over {
			over = h.Step
		}
	}
	for _, wm := range w.Net.WireFor("A", "T") {
		if wm.Step < over {
			return &Violation{Property: "C09", Rule: "R3", Signature: "message-to-third-peer", Detail: fmt.Sprintf("message sent to the third peer at step %d while the request was in progress", wm.Step)}
		}
	}
	for _, wm := range w.Net.WireFor("A", "B") {
		if wm.Err != nil {
			continue
		}
		for _, rq := range wm.Msg.Requests() {
			if rq.ID() == s.req.ID && rq.Type() != graphsync.RequestTypeNew {
				return &Violation{Property: "C09", Rule: "R3", Signature: "request-" + string(rq.Type()) + "-caused-by-third-peer", Detail: fmt.Sprintf("the requestor sent a %s for the request to its responder although the genuine exchange gives no reason to", rq.Type())}
			}
		}
	}
	// R2: outcome and data exactly as without the intruder
	if v := checkSingle("C09", s.req, s.dag, s.sel, s.split, s.a.Store.Snapshot()); v != nil {
		v.Rule = "R2"
		v.Signature = "outcome-changed:" + v.Signature
		return v
	}
	return nil
}
