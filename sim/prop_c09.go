package sim

import (
	"context"
	"errors"
	"fmt"

	blocks "github.com/ipfs/go-block-format"
	"github.com/ipfs/go-cid"
	"github.com/ipld/go-ipld-prime/node/basicnode"
	"github.com/libp2p/go-libp2p/core/peer"

	"github.com/ipfs/go-graphsync"
	"github.com/ipfs/go-graphsync/cidset"
	gsimpl "github.com/ipfs/go-graphsync/impl"
	gsmsg "github.com/ipfs/go-graphsync/message"
)

// c09: a third peer sends responses carrying the request's ID.
type c09 struct {
	c02
	t        *Scripted
	script   *Script
	hookMode string // error | update | none: how the requestor's response hook reacts to the marker extension
	nMsgs    int
	kinds    []string
	// a second request of the same requestor to the same responder (own DAG), so that one
	// intruder message can carry responses for several requests that are not the intruder's
	req2 *Req
	dag2 *DAG
	// requestor-side pause of r1 at a block, resumed later by the caller
	oracleSplit Split // what the request can obtain (the responder's store minus what it was told not to send)
	withheld    int
	withheldSet *cid.Set
	pauseAt     int64
	paused      bool
	pausedAt    int
	resumed     bool
}

func newC09() Scenario { return &c09{c02: c02{prop: "C09"}} }

func (s *c09) Name() string { return "third-peer-responses" }

var markerExt = graphsync.ExtensionData{Name: "sim/marker", Data: basicnode.NewString("intruder")}

func (s *c09) Build(w *World) {
	t := w.Tape
	drawProfile(w)
	// lock-yield build: in a third of the runs (tape digest) a goroutine may be held just before it hands a message
	// to the manager's event loop (points before the calls of send in requestmanager/client.go)
	if w.Tape.Digest()%3 == 0 {
		w.EnableLockYields("requestmanager/client.go")
	}
	s.dag = GenDAG(t, GenCfg{MaxBlocks: 3 + t.Draw(14), MaxDepth: 2 + t.Draw(4), BlockPad: []int{0, 0, 40}[t.Draw(3)], Share: []int{0, 100, 300}[t.Draw(3)]})
	s.sel, s.selDesc = AllSelector(int64(2+t.Draw(8))), "all"
	if t.Chance(300) {
		s.sel, s.selDesc = GenSelector(t, 8)
	}
	// responder complete, requestor a random subset: the genuine exchange is plain
	s.split = Split{Rq: map[cid.Cid]bool{}, Rs: map[cid.Cid]bool{}}
	rqPm := []int{0, 150, 400}[t.Draw(3)]
	for _, c := range s.dag.Order {
		s.split.Rs[c] = true
		if t.Chance(rqPm) {
			s.split.Rq[c] = true
		}
	}
	cfg := NodeCfg{GateReads: true, GateCommits: true}
	acfg := cfg
	if t.Chance(250) {
		// one request at a time: a second one waits in the requestor's queue while the intruder talks
		acfg.Opts = append(acfg.Opts, gsimpl.MaxInProgressOutgoingRequests(1))
	}
	s.a = NewNode(w, "A", acfg)
	s.b = NewNode(w, "B", cfg)
	// the request may be paused by its own caller for a while (it is still in progress, and still nobody else's business)
	if t.Chance(300) {
		s.pauseAt = int64(1 + t.Draw(4))
	}
	populate(s.a, s.dag, s.split.Rq)
	populate(s.b, s.dag, s.split.Rs)
	s.t = NewScripted(w, "T")
	// the requestor may tell the responder not to send a few blocks it does not in fact hold: the responder
	// then reports them present without data, and nobody may fill the gap - certainly not the third peer
	var r1exts []graphsync.ExtensionData
	s.oracleSplit = s.split
	if t.Chance(250) {
		set := cid.NewSet()
		os := Split{Rq: s.split.Rq, Rs: map[cid.Cid]bool{}}
		for c := range s.split.Rs {
			os.Rs[c] = true
		}
		for _, c := range s.dag.Order {
			if !c.Equals(s.dag.Root.Cid) && !s.split.Rq[c] && t.Chance(250) {
				set.Add(c)
				delete(os.Rs, c)
			}
		}
		if set.Len() > 0 {
			r1exts = append(r1exts, graphsync.ExtensionData{Name: graphsync.ExtensionDoNotSendCIDs, Data: cidset.EncodeCidSet(set)})
			s.oracleSplit = os
			s.withheld = set.Len()
			s.withheldSet = set
		}
	}
	s.req = s.a.NewReq("r1", s.b, s.dag.Root, s.sel, r1exts...)
	if t.Chance(500) {
		s.dag2 = GenDAG(t, GenCfg{MaxBlocks: 2 + t.Draw(8), MaxDepth: 1 + t.Draw(3), BlockPad: 11})
		for _, c := range s.dag2.Order {
			s.b.Store.Put(c, s.dag2.Blocks[c])
		}
		s.req2 = s.a.NewReq("r2", s.b, s.dag2.Root, AllSelector(6))
	}
	stray := ReqID("c09-stray")
	s.hookMode = []string{"error", "update", "none"}[t.Draw(3)]
	s.a.OnIncomingResponse = func(p peer.ID, r graphsync.ResponseData, a graphsync.IncomingResponseHookActions) {
		if _, has := r.Extension(markerExt.Name); !has {
			return
		}
		switch s.hookMode {
		case "error":
			a.TerminateWithError(errors.New("sim: application rejects marked response"))
		case "update":
			a.UpdateRequestWithExtensions(graphsync.ExtensionData{Name: "sim/reaction", Data: basicnode.NewString("r")})
		}
	}
	if s.pauseAt > 0 {
		s.a.OnIncomingBlock = func(p peer.ID, r graphsync.ResponseData, b graphsync.BlockData, a graphsync.IncomingBlockHookActions) {
			if r.RequestID() == s.req.ID && b.Index() == s.pauseAt && !s.paused {
				s.paused, s.pausedAt = true, w.Step
				w.Probe("c09-victim-paused")
				a.PauseRequest()
			}
		}
	}
	// the intruder's messages, released one by one by the scheduler
	s.script = NewScript(w, "T")
	s.script.Ready = func(int) bool { return s.req.Issued && (s.req2 == nil || s.req2.Issued) }
	s.nMsgs = 1 + t.Draw(5)
	statuses := []graphsync.ResponseStatusCode{graphsync.PartialResponse, graphsync.RequestCompletedFull, graphsync.RequestCompletedPartial, graphsync.RequestFailedUnknown, graphsync.RequestRejected, graphsync.RequestFailedContentNotFound, graphsync.RequestCancelled, graphsync.RequestPaused, graphsync.RequestFailedBusy}
	for i := 0; i < s.nMsgs; i++ {
		st := statuses[t.Draw(len(statuses))]
		var md []gsmsg.GraphSyncLinkMetadatum
		blks := map[cid.Cid]blocks.Block{}
		nmd := t.Draw(5)
		for k := 0; k < nmd; k++ {
			c := s.dag.Order[t.Draw(len(s.dag.Order))]
			act := []graphsync.LinkAction{graphsync.LinkActionPresent, graphsync.LinkActionMissing, graphsync.LinkActionDuplicateNotSent}[t.Draw(3)]
			md = append(md, gsmsg.GraphSyncLinkMetadatum{Link: c, Action: act})
			if act == graphsync.LinkActionPresent && t.Chance(700) {
				data := s.dag.Blocks[c]
				if t.Chance(200) {
					data = append([]byte("forged-"), data...)
				}
				b, _ := blocks.NewBlockWithCid(data, c)
				blks[b.Cid()] = b
			}
		}
		var exts []graphsync.ExtensionData
		if t.Chance(700) {
			exts = append(exts, markerExt)
		}
		// which requests the message names: r1 always unless another is drawn; r2 and an unknown ID on top
		resps := map[graphsync.RequestID]gsmsg.GraphSyncResponse{}
		names := ""
		if s.req2 == nil || !t.Chance(200) {
			resps[s.req.ID] = gsmsg.NewResponse(s.req.ID, st, md, exts...)
			names += "+r1"
		}
		if s.req2 != nil && (len(resps) == 0 || t.Chance(600)) {
			resps[s.req2.ID] = gsmsg.NewResponse(s.req2.ID, statuses[t.Draw(len(statuses))], md, exts...)
			names += "+r2"
		}
		if t.Chance(250) {
			resps[stray] = gsmsg.NewResponse(stray, st, nil, exts...)
			names += "+stray"
		}
		m := gsmsg.NewMessage(nil, resps, blks)
		s.kinds = append(s.kinds, fmt.Sprintf("%s:st%d/md%d/blk%d/ext%d", names, st, nmd, len(blks), len(exts)))
		s.script.Add(func() { s.t.Send(s.a.ID, m) })
	}
	w.AddProvider(func() []*Event {
		if !s.req.Issued {
			return []*Event{s.req.IssueEvent()}
		}
		if s.req2 != nil && !s.req2.Issued {
			return []*Event{s.req2.IssueEvent()}
		}
		if s.paused && !s.resumed && w.Step > s.pausedAt+15 && w.Quiet() {
			return []*Event{Inject("api", "act|A|r1|unpause", func(string) {
				s.resumed = true
				go func() { _ = s.a.GS.Unpause(context.Background(), s.req.ID) }()
			})}
		}
		return nil
	})
}

func (s *c09) Describe(w *World) string {
	return fmt.Sprintf("%s hook=%s withheld=%d intruder=%v", s.c02.Describe(w), s.hookMode, s.withheld, s.kinds)
}

func (s *c09) Done(w *World) bool {
	if !s.req.Done() || !s.script.Done() || (s.req2 != nil && !s.req2.Done()) {
		return false
	}
	return w.Quiet()
}

func (s *c09) Final(w *World) *Violation {
	reqs := []*Req{s.req}
	if s.req2 != nil {
		reqs = append(reqs, s.req2)
	}
	victim := func(id graphsync.RequestID) bool {
		for _, r := range reqs {
			if r.ID == id {
				return true
			}
		}
		return false
	}
	// R1: no hook of the requestor ran for a request on a message from the third peer
	for _, h := range s.a.Responses {
		// (once the request has ended there is no request left to affect: the hook
		// then runs for an unknown request ID, as it does for any stray response)
		if victim(h.Req) && h.Peer == "T" && h.Held {
			return &Violation{Property: "C09", Rule: "R1", Signature: "response-hook-ran-for-third-peer", Detail: fmt.Sprintf("incoming response hook invoked for request %s with sender T (status %d, step %d)", shortReq(h.Req), h.Status, h.Step)}
		}
	}
	for _, h := range s.a.InBlocks {
		if victim(h.Req) && h.Peer == "T" {
			return &Violation{Property: "C09", Rule: "R1", Signature: "block-hook-ran-for-third-peer", Detail: "incoming block hook invoked with sender T"}
		}
	}
	// R1b: the response data a block hook is handed is one the genuine responder sent for that request
	sentByB := map[string]bool{}
	for _, wm := range w.Net.WireFor("B", "A") {
		if wm.Err != nil {
			continue
		}
		for _, r := range wm.Msg.Responses() {
			sentByB[fmt.Sprintf("%s|%d|%v", shortReq(r.RequestID()), r.Status(), extNames(r.ExtensionNames()))] = true
		}
	}
	for _, r := range reqs {
		// before the first response arrives the hook is handed a locally made acknowledgement
		sentByB[fmt.Sprintf("%s|%d|%v", shortReq(r.ID), graphsync.RequestAcknowledged, []string{})] = true
	}
	for _, h := range s.a.InBlocks {
		if victim(h.Req) && !sentByB[fmt.Sprintf("%s|%d|%v", shortReq(h.Req), h.Status, h.Exts)] {
			return &Violation{Property: "C09", Rule: "R1", Signature: "block-hook-handed-third-peer-response", Detail: fmt.Sprintf("incoming block hook for request %s (block #%d, step %d) was handed response data (status %d, extensions %v) that its responder never sent", shortReq(h.Req), h.Index, h.Step, h.Status, h.Exts)}
		}
	}
	if s.withheldSet != nil {
		// the requestor told the responder not to send blocks it does not hold (its own doing: how the
		// request then ends is not compared). What must still hold: nobody fills the gap - a withheld block
		// can come from nowhere legitimate, so it is never stored
		for _, c := range s.a.Store.Commits {
			if s.withheldSet.Has(c.Cid) {
				return &Violation{Property: "C09", Rule: "R2", Signature: "withheld-block-stored", Detail: fmt.Sprintf("block %s, which the responder was told not to send and the requestor does not hold, was stored at step %d: its bytes can only have come from the third peer's message", shortCid(c.Cid), c.Step)}
			}
		}
		return nil
	}
	// R3: nothing sent on a request's behalf because of the intruder
	// (a stray response - for an unknown ID, or for a request that has ended - is answered
	// like any stray response, e.g. with the update its hook asks for; that is not on a request's behalf)
	over := 1 << 30
	for _, h := range s.a.Responses {
		if h.Peer == "T" && !(victim(h.Req) && h.Held) && h.Step < over {
			over = h.Step
		}
	}
	for _, wm := range w.Net.WireFor("A", "T") {
		if wm.Step < over {
			return &Violation{Property: "C09", Rule: "R3", Signature: "message-to-third-peer", Detail: fmt.Sprintf("message sent to the third peer at step %d while the request was in progress", wm.Step)}
		}
		if wm.Err == nil {
			for _, rq := range wm.Msg.Requests() {
				if victim(rq.ID()) {
					for _, r := range reqs {
						if r.ID == rq.ID() && !r.Done() {
							return &Violation{Property: "C09", Rule: "R3", Signature: "message-to-third-peer", Detail: fmt.Sprintf("%s for request %s sent to the third peer", rq.Type(), shortReq(rq.ID()))}
						}
					}
				}
			}
		}
	}
	for _, wm := range w.Net.WireFor("A", "B") {
		if wm.Err != nil {
			continue
		}
		for _, rq := range wm.Msg.Requests() {
			if s.paused && rq.ID() == s.req.ID {
				continue // the caller's own pause cancels and later re-requests
			}
			if victim(rq.ID()) && rq.Type() != graphsync.RequestTypeNew {
				return &Violation{Property: "C09", Rule: "R3", Signature: "request-" + string(rq.Type()) + "-caused-by-third-peer", Detail: fmt.Sprintf("the requestor sent a %s for the request to its responder although the genuine exchange gives no reason to", rq.Type())}
			}
		}
	}
	// R2: outcome and data exactly as without the intruder
	// (each request is compared over the blocks of its own DAG; the two DAGs share none)
	only := func(d *DAG) map[cid.Cid][]byte {
		out := map[cid.Cid][]byte{}
		for c, b := range s.a.Store.Snapshot() {
			if _, ok := d.Blocks[c]; ok || (s.dag2 != nil && d == s.dag && s.dag2.Blocks[c] == nil) {
				out[c] = b
			}
		}
		return out
	}
	csel09, _ := CanonicalSelector(s.sel)
	if RefLoadsPathTwice(s.dag, csel09, s.split) || (s.paused && LinkSeqDiverge(s.dag, csel09, s.split, 1<<30)) {
		w.Probe("c09-skip-known-c02-input-class") // recorded under C02 / C06; not the intruder's doing
	} else if v := checkSingle("C09", s.req, s.dag, s.sel, s.oracleSplit, only(s.dag)); v != nil {
		v.Rule = "R2"
		v.Signature = "outcome-changed:" + v.Signature
		return v
	}
	if s.req2 != nil {
		sp2 := Split{Rq: map[cid.Cid]bool{}, Rs: map[cid.Cid]bool{}}
		for _, c := range s.dag2.Order {
			sp2.Rs[c] = true
		}
		if v := checkSingle("C09", s.req2, s.dag2, AllSelector(6), sp2, only(s.dag2)); v != nil {
			v.Rule = "R2"
			v.Signature = "outcome-changed:second-request:" + v.Signature
			return v
		}
	}
	return nil
}
