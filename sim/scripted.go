package sim

import (
	"context"
	"fmt"
	"sync"

	"github.com/libp2p/go-libp2p/core/peer"

	gsmsg "github.com/ipfs/go-graphsync/message"
	gsnet "github.com/ipfs/go-graphsync/network"
)

// RecvMsg is a message a scripted peer received.
type RecvMsg struct {
	Step int
	From string
	Msg  gsmsg.GraphSyncMessage
}

// Scripted is a peer whose behaviour is a script: it speaks through the real
// graphsync network layer (real codec, real stream handling) but has no
// graphsync instance behind it.
type Scripted struct {
	W    *World
	Name string
	ID   peer.ID
	Host *SimHost
	Net  gsnet.GraphSyncNetwork

	mu       sync.Mutex
	Received []RecvMsg
	RecvErrs int
	queue    chan scriptedSend
	ctx      context.Context
	senders  map[peer.ID]gsnet.MessageSender
	Sent     int
	SendErrs int
}

type scriptedSend struct {
	to  peer.ID
	msg gsmsg.GraphSyncMessage
	raw []byte
}

func NewScripted(w *World, name string) *Scripted {
	if w.Net == nil {
		NewFabric(w)
	}
	h := w.Net.NewHost(name)
	ctx, cancel := context.WithCancel(context.Background())
	w.cleanup = append(w.cleanup, cancel)
	s := &Scripted{W: w, Name: name, ID: h.id, Host: h, queue: make(chan scriptedSend, 1024), ctx: ctx, senders: map[peer.ID]gsnet.MessageSender{}}
	s.Net = gsnet.NewFromLibp2pHost(h)
	s.Net.SetDelegate(s)
	go s.loop()
	return s
}

func (s *Scripted) loop() {
	for {
		select {
		case <-s.ctx.Done():
			return
		case it := <-s.queue:
			s.sendOne(it)
		}
	}
}

func (s *Scripted) sendOne(it scriptedSend) {
	snd := s.senders[it.to]
	if snd == nil {
		if err := s.Net.ConnectTo(s.ctx, it.to); err != nil {
			s.mu.Lock()
			s.SendErrs++
			s.mu.Unlock()
			return
		}
		var err error
		snd, err = s.Net.NewMessageSender(s.ctx, it.to, gsnet.MessageSenderOpts{})
		if err != nil {
			s.mu.Lock()
			s.SendErrs++
			s.mu.Unlock()
			return
		}
		s.senders[it.to] = snd
	}
	if err := snd.SendMsg(s.ctx, it.msg); err != nil {
		_ = snd.Reset()
		delete(s.senders, it.to)
		s.mu.Lock()
		s.SendErrs++
		s.mu.Unlock()
		return
	}
	s.mu.Lock()
	s.Sent++
	s.mu.Unlock()
}

// Send queues a message; the actual write is a gate like any other send.
func (s *Scripted) Send(to peer.ID, m gsmsg.GraphSyncMessage) {
	s.W.Effect("script %s queues %s", s.Name, SummarizeMsg(s.W.Net, m))
	s.queue <- scriptedSend{to: to, msg: m}
}

func (s *Scripted) ReceiveMessage(ctx context.Context, sender peer.ID, incoming gsmsg.GraphSyncMessage) {
	s.mu.Lock()
	s.Received = append(s.Received, RecvMsg{Step: s.W.Step, From: s.W.Net.Name(sender), Msg: incoming})
	s.mu.Unlock()
	s.W.Effect("script %s received from %s: %s", s.Name, s.W.Net.Name(sender), SummarizeMsg(s.W.Net, incoming))
}

func (s *Scripted) ReceiveError(p peer.ID, err error) {
	s.mu.Lock()
	s.RecvErrs++
	s.mu.Unlock()
	s.W.Effect("script %s receive error from %s: %v", s.Name, s.W.Net.Name(p), err)
}

func (s *Scripted) Connected(p peer.ID)    {}
func (s *Scripted) Disconnected(p peer.ID) {}

// Script is an ordered list of actions, each released by its own scheduler event.
type Script struct {
	w     *World
	name  string
	steps []func()
	next  int
	// Ready gates the next step (nil = always ready).
	Ready func(i int) bool
}

func NewScript(w *World, name string) *Script {
	s := &Script{w: w, name: name}
	w.AddProvider(s.events)
	return s
}

func (s *Script) Add(f func()) { s.steps = append(s.steps, f) }

func (s *Script) Done() bool { return s.next >= len(s.steps) }

func (s *Script) events() []*Event {
	if s.next >= len(s.steps) {
		return nil
	}
	if s.Ready != nil && !s.Ready(s.next) {
		return nil
	}
	i := s.next
	return []*Event{Inject("api", fmt.Sprintf("script|%s|%03d", s.name, i), func(string) {
		if s.next == i {
			s.next++
			s.steps[i]()
		}
	})}
}
