package sim

import (
	"context"
	"fmt"
	"github.com/ipfs/go-graphsync/donotsendfirstblocks"
	"strings"

	"github.com/ipfs/go-cid"
	"github.com/libp2p/go-libp2p/core/peer"

	"github.com/ipfs/go-graphsync"
)

// c06: the C02 world plus one pause and one resume.
type c06 struct {
	c02
	racing    bool   // family (ii): resume at any time; family (i): only when the system is quiet
	side      string // requestor | responder
	mech      string // hook | api
	at        int64  // block index (hook) or earliest step (api)
	delay     int    // steps between pause taking effect and the resume being offered
	paused    bool   // pause was requested (hook fired / api returned nil)
	pauseStep int
	resumed   bool
	resumeRet error
	resumeAt  int // step at which resume returned
	apiFired  bool
	apiDone   bool
}

func newC06Quiet() Scenario  { return &c06{c02: c02{prop: "C06"}} }
func newC06Racing() Scenario { return &c06{c02: c02{prop: "C06"}, racing: true} }

func (s *c06) Name() string {
	if s.racing {
		return "pause-resume/racing"
	}
	return "pause-resume/quiet"
}

func (s *c06) Build(w *World) {
	t := w.Tape
	drawProfile(w)
	// lock-yield build: in a third of the quiet runs a goroutine may be held before the task queue's lock
	// acquisitions (a worker giving its slot back after a pause, say); such a goroutine does not count against "quiet"
	if !s.racing && t.Digest()%3 == 0 {
		w.EnableLockYields("taskqueue/taskqueue.go")
		w.Prof.Weights["yield"] = 1 // (held long: the interesting orders are those in which the caller's resume comes first)
	}
	s.dag = GenDAG(t, GenCfg{MaxBlocks: 3 + t.Draw(16), MaxDepth: 2 + t.Draw(4), BlockPad: []int{0, 0, 40}[t.Draw(3)], Share: []int{0, 100, 300}[t.Draw(3)], Empty: []int{0, 0, 80}[t.Draw(3)], Alias: []int{0, 0, 100}[t.Draw(3)]})
	s.sel, s.selDesc = GenSelector(t, 8)
	s.split = GenSplit(t, s.dag)
	if t.Chance(300) {
		// swarm: a responder with holes (blocks neither side has), so that pauses land on missing links
		for _, c := range s.dag.Order {
			if !c.Equals(s.dag.Root.Cid) && t.Chance(300) {
				delete(s.split.Rs, c)
				delete(s.split.Rq, c)
			}
		}
	}
	cfg := NodeCfg{GateReads: true, GateCommits: true}
	s.a = NewNode(w, "A", cfg)
	s.b = NewNode(w, "B", cfg)
	populate(s.a, s.dag, s.split.Rq)
	populate(s.b, s.dag, s.split.Rs)
	s.req = s.a.NewReq("r1", s.b, s.dag.Root, s.sel)
	s.side = []string{"requestor", "responder"}[t.Draw(2)]
	s.mech = []string{"hook", "api"}[t.Draw(2)]
	s.delay = t.Draw(30)
	if s.mech == "hook" {
		s.at = int64(1 + t.Draw(10)) // enumerated over runs: every block index gets its turn
		if s.side == "responder" {
			s.b.OnOutgoingBlock = func(p peer.ID, r graphsync.RequestData, b graphsync.BlockData, a graphsync.OutgoingBlockHookActions) {
				if b.Index() == s.at && !s.paused {
					s.paused = true
					s.pauseStep = w.Step
					a.PauseResponse()
				}
			}
		} else {
			s.a.OnIncomingBlock = func(p peer.ID, r graphsync.ResponseData, b graphsync.BlockData, a graphsync.IncomingBlockHookActions) {
				if b.Index() == s.at && !s.paused {
					s.paused = true
					s.pauseStep = w.Step
					a.PauseRequest()
				}
			}
		}
	} else {
		s.at = int64(t.Draw(80))
	}
	w.AddProvider(func() []*Event {
		var evs []*Event
		if !s.req.Issued {
			return []*Event{s.req.IssueEvent()}
		}
		if !s.req.Returned {
			return nil
		}
		node := s.a
		if s.side == "responder" {
			node = s.b
		}
		if s.mech == "api" && !s.apiFired && int64(w.Step) >= s.at && !s.req.Done() {
			evs = append(evs, Inject("api", "act|"+node.Name+"|r1|pause", func(string) {
				s.apiFired = true
				w.Probe("c06-api-pause")
				go func() {
					err := node.GS.Pause(context.Background(), s.req.ID)
					w.Effect("act %s r1 pause returned %v", node.Name, err)
					if err == nil {
						s.paused = true
						s.pauseStep = w.Step
					}
					s.apiDone = true
				}()
			}))
		}
		if s.paused && !s.resumed && w.Step >= s.pauseStep+s.delay && (s.racing || w.QuietBut("yield|lock:taskqueue/taskqueue.go")) {
			evs = append(evs, Inject("api", "act|"+node.Name+"|r1|unpause", func(string) {
				s.resumed = true
				w.Probe("c06-resume:" + s.side + "/" + s.mech)
				go func() {
					s.resumeRet = node.GS.Unpause(context.Background(), s.req.ID)
					s.resumeAt = w.Step
					w.Effect("act %s r1 unpause returned %v", node.Name, s.resumeRet)
				}()
			}))
		}
		return evs
	})
}

func (s *c06) Describe(w *World) string {
	fam := "quiet"
	if s.racing {
		fam = "racing"
	}
	return fmt.Sprintf("%s %s pause=%s/%s@%d delay=%d paused=%v", s.c02.Describe(w), fam, s.side, s.mech, s.at, s.delay, s.paused)
}

func (s *c06) Done(w *World) bool {
	if !s.req.Done() {
		return false
	}
	return true
}

// Heal: a pause nobody resumed yet is resumed now (C06 compares with the uninterrupted exchange).
func (s *c06) Heal(w *World) {
	w.Net.Heal()
}

func (s *c06) NextPhase(w *World, phase int) bool {
	if phase > 2 || s.req.Done() {
		return false
	}
	// unpause whichever side is paused; quiet by construction (the drain just ended)
	for _, n := range []*Node{s.b, s.a} {
		n := n
		w.Sync(func() {
			if err := n.GS.Unpause(context.Background(), s.req.ID); err == nil {
				s.resumed = true
				s.resumeAt = w.Step
				w.Effect("heal: %s unpaused r1", n.Name)
			}
		})
	}
	return true
}

func (s *c06) Final(w *World) *Violation {
	v := checkSingle("C06", s.req, s.dag, s.sel, s.split, s.a.Store.Snapshot())
	if v == nil {
		v = s.checkPausedSilence(w)
	}
	if v == nil && !s.racing && s.side == "requestor" {
		v = s.checkResumeSkips(w)
	}
	if v != nil {
		// what raced, for signatures a recorded finding can be keyed on
		tags := ""
		nIn := 0
		for _, h := range s.b.Incoming {
			if h.Req == s.req.ID {
				nIn++
			}
		}
		if nIn > 1 {
			tags += "rerequest:"
		}
		if s.lateOldStream(w) {
			tags += "late-old-stream:"
		}
		if s.racing && tags == "" {
			tags = "untagged:"
		}
		if s.racing {
			tags = "racing:" + tags
		} else {
			tags = "quiet:" + tags
		}
		if s.side == "requestor" && !strings.Contains(v.Signature, "skipcount-desync") && s.resumeDesync() {
			// on resume the requestor asks to skip every block it has traversed so far;
			// one of them is a block the responder does not have (same finding as C02's)
			v.Signature = "skipcount-desync:" + v.Signature
		}
		v.Signature = tags + s.side + "/" + s.mech + ":" + v.Signature
	}
	return v
}

// resumeDesync: on resume the requestor asks to skip every block it has traversed
// so far - a position in its own link sequence; the responder's own sequence differs
// from it somewhere (the requestor descended through a block the responder lacks).
func (s *c06) resumeDesync() bool {
	csel, _ := CanonicalSelector(s.sel)
	return LinkSeqDiverge(s.dag, csel, s.split, 1<<30)
}

// lateOldStream: a response message for the request that the responder sent
// before the re-request reached it was delivered to the requestor only after
// the requestor had resumed (so it is taken for part of the new stream), or a
// requestor-side resume happened while such a message was still in flight.
func (s *c06) lateOldStream(w *World) bool {
	if s.side != "requestor" || s.resumeAt == 0 {
		return false
	}
	second := 0
	n := 0
	for _, h := range s.b.Incoming {
		if h.Req == s.req.ID {
			n++
			if n == 2 {
				second = h.Step
			}
		}
	}
	for _, wm := range w.Net.WireFor("B", "A") {
		if wm.Err != nil {
			continue
		}
		for _, r := range wm.Msg.Responses() {
			if r.RequestID() != s.req.ID {
				continue
			}
			old := second == 0 || wm.Step < second
			if old && (wm.Delivered == 0 || wm.Delivered >= s.resumeAt) && wm.Step <= s.resumeAt+1000 {
				if wm.Delivered >= s.resumeAt || wm.Delivered == 0 {
					return true
				}
			}
		}
	}
	return false
}

// R4: while the response is paused the responder sends no block data for it.
func (s *c06) checkPausedSilence(w *World) *Violation {
	if s.side != "responder" {
		return nil
	}
	wire := w.Net.WireFor("B", "A")
	pausedFrom := -1
	for mi, wm := range wire {
		if wm.Err != nil {
			continue
		}
		for _, r := range wm.Msg.Responses() {
			if r.RequestID() != s.req.ID {
				continue
			}
			if pausedFrom >= 0 && mi > pausedFrom && (s.resumeAt == 0 || wm.Step < s.resumeAt) {
				has := map[cid.Cid]bool{}
				for _, b := range wm.Msg.Blocks() {
					has[b.Cid()] = true
				}
				for _, e := range ResponseMetadata(r) {
					if has[e.Cid] {
						return &Violation{Property: "C06", Rule: "R4", Signature: "block-while-paused", Detail: fmt.Sprintf("message %d (step %d) carries block %s for the paused response (paused since message %d, resumed at step %d)", mi, wm.Step, shortCid(e.Cid), pausedFrom, s.resumeAt)}
					}
				}
			}
			if r.Status() == graphsync.RequestPaused {
				pausedFrom = mi
			} else if pausedFrom >= 0 && s.resumeAt != 0 && wm.Step >= s.resumeAt {
				pausedFrom = -1
			}
		}
	}
	return nil
}

// checkResumeSkips (quiet requestor pause and resume): the re-request tells the responder how many leading blocks
// not to send; none of them may be transmitted again. The resumed response is what the responder sent after the
// re-request reached it; an entry within the skipped prefix may share its message with the block only if a later
// entry of the same message, beyond the prefix, names the same block.
func (s *c06) checkResumeSkips(w *World) *Violation {
	if s.resumeDesync() {
		return nil // (input class of the recorded skip-count finding: the two peers number the links differently)
	}
	var skip int64 = -1
	reqAt, nNew := 0, 0
	for _, wm := range w.Net.WireFor("A", "B") {
		if wm.Err != nil {
			continue
		}
		for _, r := range wm.Msg.Requests() {
			if r.ID() != s.req.ID || r.Type() != graphsync.RequestTypeNew {
				continue
			}
			nNew++
			if nNew == 2 && wm.Delivered > 0 {
				reqAt = wm.Delivered
				skip = 0
				if data, ok := r.Extension(graphsync.ExtensionsDoNotSendFirstBlocks); ok {
					if n, err := donotsendfirstblocks.DecodeDoNotSendFirstBlocks(data); err == nil {
						skip = n
					}
				}
			}
		}
	}
	if skip <= 0 || nNew != 2 {
		return nil
	}
	w.Probe("c06-resumed-response-checked-for-skipped-blocks")
	idx := int64(0)
	for _, wm := range w.Net.WireFor("B", "A") {
		if wm.Err != nil || wm.Step <= reqAt {
			continue
		}
		inMsg := map[cid.Cid]bool{}
		for _, b := range wm.Msg.Blocks() {
			inMsg[b.Cid()] = true
		}
		for _, r := range wm.Msg.Responses() {
			if r.RequestID() != s.req.ID {
				continue
			}
			md := ResponseMetadata(r)
			beyond := map[cid.Cid]bool{}
			for k, e := range md {
				if idx+int64(k)+1 > skip {
					beyond[e.Cid] = true
				}
			}
			for k, e := range md {
				n := idx + int64(k) + 1
				if n <= skip && inMsg[e.Cid] && !beyond[e.Cid] {
					return &Violation{Property: "C06", Rule: "R3", Signature: "skipped-block-sent-after-resume", Detail: fmt.Sprintf("the re-request asked the responder not to send its first %d blocks; block %s (link %d of the resumed response) was transmitted all the same", skip, shortCid(e.Cid), n)}
				}
			}
			idx += int64(len(md))
		}
	}
	return nil
}
