"""Static per-property metadata used by bin/check for budgets and evidence."""

COMMON_ASSUMPTIONS = [
    "go-ipld-prime v0.24.0 traversal/codecs are the trusted reference for 'a local selector traversal'",
    "libp2p is replaced by SimHost/SimStream: FIFO reliable bytes within a stream, loss on reset, duplication on retry, arbitrary interleaving across streams",
    "testing/synctest (Go 1.26.8) fake clock and quiescence detection are sound",
    "sampling, not enumeration: a clean batch is evidence, not proof",
]

REAL_VS_STUB = {
    "real": "impl, requestmanager(+executor,reconciledloader,traversalrecord,hooks), responsemanager(+queryexecutor,responseassembler,hooks), messagequeue, peermanager, notifications, allocator, taskqueue, linktracker, ipldutil, message(+v2,ipldbind), network/libp2p_impl.go, selectorvalidator, cidset, dedupkey, donotsendfirstblocks, listeners, persistenceoptions, panics, go-ipld-prime, go-peertaskqueue, go-pubsub, go-msgio",
    "stub": "libp2p host/stream/conn/conn-manager (SimHost), block store (SimStore), user hooks and listeners, callers, scripted remote peers, clock (synctest)",
}

def _b(quick_runs, quick_wall, th_runs, th_wall):
    return {"runs": {"quick": quick_runs, "thorough": th_runs}, "wall": {"quick": quick_wall, "thorough": th_wall}}

META = {}

def prop(pid, level, rule, budget, **kw):
    d = dict(level=level, rule=rule)
    d.update(budget)
    d.update(kw)
    META[pid] = d

prop("C02", "exploration",
     "each run draws a DAG (3-25 blocks, inline maps/lists holding links, shared sub-DAGs, raw/identity leaves), a selector from the selector grammar, a 4-way store split and a scheduler profile from one tape; distinct = distinct trace hash (hash chain over per-step effect sets); non-trivial = at least one non-default scheduling decision and more than 5 steps",
     _b(2000, 60, 150000, 1500),
     probes=[])
