"""Static per-property metadata used by bin/check for budgets and evidence."""

COMMON_ASSUMPTIONS = [
    "go-ipld-prime v0.24.0 traversal/codecs are the trusted reference for 'a local selector traversal'",
    "libp2p is replaced by SimHost/SimStream: FIFO reliable bytes within a stream, loss on reset, duplication on retry, arbitrary interleaving across streams",
    "testing/synctest (Go 1.26.8) fake clock and quiescence detection are sound",
    "sampling, not enumeration: a clean batch is evidence, not proof",
]

REAL_VS_STUB = {
    "real": "impl, requestmanager(+executor,reconciledloader,traversalrecord,hooks), responsemanager(+queryexecutor,responseassembler,hooks), messagequeue, peermanager, notifications, allocator, taskqueue, linktracker, ipldutil, message(+v2,ipldbind), network/libp2p_impl.go, selectorvalidator, cidset, dedupkey, donotsendfirstblocks, listeners, persistenceoptions, panics, go-ipld-prime, go-peertaskqueue, go-pubsub, go-msgio",
    "stub": "libp2p host/stream/conn/conn-manager (SimHost), block store (SimStore), user hooks and listeners, callers, scripted remote peers, clock (synctest)",
}

# component worlds: what is real there (everything else of the node is simply not part of the world)
RVS_ALLOC = {"real": "allocator (whole package)", "stub": "callers (scripted goroutines); nothing else of the node takes part"}
RVS_MQ = {"real": "messagequeue, peermanager, allocator (behind a pass-through ledger), notifications, network/libp2p_impl.go, message(+v2,ipldbind), go-msgio", "stub": "libp2p host/stream/conn (SimHost), the callers that build messages, subscribers, the remote peers (scripted), clock (synctest)"}
RVS_PUB = {"real": "notifications (publisher)", "stub": "subscribers (recording, gated callbacks), callers"}
RVS_LT = {"real": "responsemanager/responseassembler (peerLinkTracker, responseBuilder, ResponseStream transactions), linktracker, messagequeue.Builder", "stub": "the peer message handler (captures every transaction into a fresh builder), subscriber, callers"}
RVS_CODEC = {"real": "message(+v2,ipldbind), cidset, dedupkey, donotsendfirstblocks, network/libp2p_impl.go (framing, stream handling), go-msgio, go-ipld-prime codecs", "stub": "libp2p host/stream (SimHost, fragmenting delivery), both peers (scripted), clock (synctest)"}


def _b(quick_runs, quick_wall, th_runs, th_wall):
    return {"runs": {"quick": quick_runs, "thorough": th_runs}, "wall": {"quick": quick_wall, "thorough": th_wall}}

META = {}

def prop(pid, level, rule, budget, **kw):
    d = dict(level=level, rule=rule)
    d.update(budget)
    d.update(kw)
    META[pid] = d

prop("C02", "exploration",
     "each run draws a DAG (3-25 blocks, inline maps/lists holding links, shared sub-DAGs, raw/identity leaves), a selector from the selector grammar, a 4-way store split and a scheduler profile from one tape; distinct = distinct trace hash (hash chain over per-step effect sets); non-trivial = at least one non-default scheduling decision and more than 5 steps",
     _b(2000, 60, 150000, 1500),
     probes=[])

prop("C24", "exploration",
     "each run draws a DAG, selector, requestor-heavy store split (responder complete) and optional user do-not-send-first-blocks / do-not-send-cids extensions; the wire of the real two-node exchange is observed; distinct = distinct trace hash; non-trivial = non-default scheduling and more than 5 steps",
     _b(2000, 60, 100000, 1200))
prop("C07", "exploration",
     "each run draws a DAG, selector and a link budget N from {1,2,3,needed-1,needed,needed+1,needed+10} set globally, per request by hook, or both, on the requestor or the responder; needed = link loads of an independent reference traversal; distinct = distinct trace hash",
     _b(2000, 60, 100000, 1200), probes=["c07-responder-lacks-blocks", "c07-budget-runs-out-after-a-missing-block"])
prop("C03", "exploration",
     "one real responder and a scripted requestor speaking through the real codec; each run draws DAG, responder store (blocks missing at random, occasionally the root), 1-2 requests with selectors and do-not-send-first-blocks (0,1,2,len-1,len,len+3), do-not-send-cids and dedup-by-key combinations; wire output reassembled per request and compared with the reference traversal over the responder store; distinct = distinct trace hash",
     _b(2000, 60, 100000, 1200))

NOT_APPLICABLE = {}
HOOK_COMMITS = ["a570d77", "892fb38", "f85b010", "cff13f8", "e658946", "e9ed0c9", "f7e5a52", "6908e64", "88681b5", "9b31507", "7eee51e", "3c461ca", "0cb7bec", "d8a91f5", "1f3ab00", "aed0aa0"]

prop("C04", "exploration",
     "lifecycle world: 1-2 real requestors and a real responder, 1-3 requests, per request a scripted environment (request hook accept/terminate/pause/reject, block hook pause/error at block k, requestor response-hook error, requestor block-hook pause/error) and up to two caller/operator actions (context cancel, Cancel API, pause/unpause on either side, updates) enabled from a drawn step; fault family adds send failures, lost acks, connect failures, disconnects, store read errors and small retry counts; after heal every paused exchange is unpaused, then every open request is cancelled by its caller and drained; distinct = distinct trace hash",
     _b(1500, 90, 60000, 1500), lock_yield_files=["messagequeue/messagequeue.go", "responsemanager/responseassembler/responseassembler.go", "responsemanager/responseassembler/peerlinktracker.go", "peermanager/peermanager.go", "notifications/publisher.go", "allocator/allocator.go", "taskqueue/taskqueue.go#TaskDone"], probes=["act:ctxcancel", "act:apicancel", "act:pause"])
prop("C05", "exploration",
     "same lifecycle world without requestor-side pause; oracle over the responder's completed / cancelled / network-error listeners, PeerState, Stats and ConnManager protect/unprotect for every request the responder's request hook saw",
     _b(1500, 90, 60000, 1500), lock_yield_files=["messagequeue/messagequeue.go", "responsemanager/responseassembler/responseassembler.go", "responsemanager/responseassembler/peerlinktracker.go", "peermanager/peermanager.go", "notifications/publisher.go", "allocator/allocator.go", "taskqueue/taskqueue.go#TaskDone"], probes=["act:bcancel", "act:bpause"])
prop("C23", "exploration",
     "same lifecycle world; at every quiescent step at which no goroutine of the node is held at one of the simulator's internal yields, PeerState(...) of every node is compared with its task queue through Diagnostics(); Stats() must be zero at the end",
     _b(1500, 90, 60000, 1500), lock_yield_files=["messagequeue/messagequeue.go", "responsemanager/responseassembler/responseassembler.go", "responsemanager/responseassembler/peerlinktracker.go", "peermanager/peermanager.go", "notifications/publisher.go", "allocator/allocator.go", "taskqueue/taskqueue.go#TaskDone"], probes=["c23-peerstate-compared"])

prop("C06", "fault_enumeration",
     "the C02 world (generated DAG, selector, 4-way store split, real requestor and responder) plus one pause and one resume: side in {requestor, responder} x mechanism in {block hook at block index 1..10, API call from step 0..80} x resume delay 0..30 steps, in two families kept apart: quiet (resume offered only when nothing is in flight) and racing (resume at any time); compared with the uninterrupted reference traversal; wire monitor for block data while paused; distinct = distinct trace hash",
     _b(1500, 90, 60000, 1500), lock_yield_files=["taskqueue/taskqueue.go#TaskDone"], probes=["c06-resume:requestor/hook", "c06-resume:requestor/api", "c06-resume:responder/hook", "c06-resume:responder/api"],
     technique="deterministic simulation; pause point, side and mechanism enumerated over runs, message timing by seeded schedules; reference-traversal oracle")
prop("C20", "exploration",
     "2-4 concurrent requests from one real requestor to one real responder over one generated DAG with heavy sharing (roots drawn among its dag-cbor blocks), default dedup scope, 4-way store split; per request the delivered nodes must contain, in order, everything the request delivers when run alone and nothing outside a traversal over the union of both stores; distinct = distinct trace hash",
     _b(1500, 90, 60000, 1500))

prop("C22", "fault_enumeration",
     "two real nodes, two concurrent requests over disjoint DAGs; one panic injected per run, enumerated over function in {storage read, storage commit, prototype chooser, node reifier, codec decode} x side in {requestor, responder} x call index 1..6 of that function for the victim request; a crash of the worker process is attributed to the run; the sibling must deliver exactly the reference traversal, the victim must end with an error and the panic callback must have received the value; distinct = distinct trace hash",
     _b(800, 90, 30000, 1200), crash_is_violation=True, probes=["c22-panic-after-cancel"],
     technique="deterministic simulation with enumerated panic injection; process-crash attribution by the parent")

prop("C21", "exploration",
     "one real responder with MaxInProgressIncomingRequests 1-4 and per-peer limit 0-3, 2-4 real requestors with MaxInProgressOutgoingRequests 1-3, 3-10 requests issued in bursts and trickles as the scheduler decides; task duration = how long the scheduler holds each request's block loads (load weight drawn per run); some queued requests are cancelled (which freezes the peer in go-peertaskqueue until the 100 ms thaw ticker fires on the fake clock); invariant after every step: traversals parked in a responder block load <= limits, requestor executions announced and still holding their connection protection <= outgoing limit; at the end every non-cancelled request delivered the reference traversal; distinct = distinct trace hash",
     _b(800, 90, 30000, 1200), probes=["c21-cancel", "c21-incoming-limit-reached", "c21-outgoing-limit-reached"])

prop("C25", "exploration",
     "family responder: one real responder with 3-5 workers, peer S whose connection is stalled for good (every write to it blocks; no timeout is allowed to fire: the drain lets at most 20 simulated seconds pass, the send timeout is 10 min) and, in 70% of runs, a memory allowance of about two of its blocks; S has 1-2 requests in flight and keeps sending updates, cancels and new requests; peers X and Y send 2-5 requests whose request hooks accept, send extension data, pause (resumed by an update whose hook unpauses), or reject. family requestor: one real requestor whose sends to responder S stall while it fetches from X and Y. Oracle: every request of X and Y completes with the reference result; on failure the blocked call site of the actor loop is read from the goroutine dump; distinct = distinct trace hash",
     _b(800, 90, 30000, 1200), lock_yield_files=["messagequeue/messagequeue.go", "peermanager/peermanager.go", "notifications/publisher.go", "allocator/allocator.go", "responsemanager/responseassembler/responseassembler.go"], probes=["send-stalled-for-good", "c25-S-newreq", "c25-S-update"])

prop("C09", "exploration",
     "real requestor and real genuine responder (complete store) plus a scripted third peer speaking through the real codec that knows the request ID and injects 1-5 responses with any status, random metadata over the DAG's links, genuine or forged blocks and a marker extension, at scheduler-chosen moments of the genuine exchange; the requestor's response hook reacts to the marker (error / update / nothing) as an application would; oracle: no hook call with the third peer as sender, no message to the third peer, no cancel/update sent to the genuine responder, outcome and stored blocks exactly as the C02 reference; distinct = distinct trace hash",
     _b(1200, 90, 50000, 1200), lock_yield_files=["requestmanager/client.go@send"])

prop("C10", "exploration",
     "real responder serving a real requestor A (sometimes paused by a block hook and resumed by the responder's operator) while a scripted second peer T, speaking through the real codec, sends 1-4 cancel / update / new-request messages carrying A's request ID at scheduler-chosen moments (queued, running, paused, completing); oracle: no requestor-cancelled notification, no update hook call (only T sends updates), A receives exactly the C02 reference, completed listener once with a success status, exactly one terminal status on the wire to A; distinct = distinct trace hash",
     _b(1200, 90, 50000, 1200), lock_yield_files=["responsemanager/client.go@send"])

prop("C01", "exploration",
     "real requestor (store = random subset of the DAG, sometimes failing commits, sometimes pausing at a block and resuming) against a scripted adversarial responder that speaks through the real codec: it computes the honest response stream with the reference traversal and applies 0-4 mutations drawn from {swap, drop, duplicate, wrong action, forged bytes, block of an unrelated DAG under the expected CID, invented entry, same bytes under another CID prefix, misplaced DAG block, withheld block}, cuts it into 1-4 entry messages, and varies the terminal status (early, repeated, failure codes), message replay and responses under a foreign request ID; oracle: delivered nodes are an in-order subsequence of the genuine traversal, every commit hashes to its link and carries the genuine bytes, commits are an in-order subsequence of the reference link loads; distinct = distinct trace hash",
     _b(1200, 90, 50000, 1200), probes=["c01-blocks-stored", "c01-complete-delivery", "c01-incorrect-response-detected", "c01-resumed-against-adversary"])

prop("C13", "exploration",
     "component harness: the real allocator.Allocator driven through generated histories (5-45 operations) of allocate (amounts 1,2,3,5 units and one above the per-peer limit) / release (also more than held) / release-peer by 2-4 peers under drawn total and per-peer limits, compared after every operation with an executable model written from the property statement: limits, Stats(), AllocatedForPeer, pending bytes and peers, all zero once everything is released; operations are atomic under the allocator's lock so histories are sequential and the comparison is exact; distinct = distinct trace hash (history + limits); second family (every other run): 2-3 callers, each a goroutine with a script of its own (allocate, release, release-peer, Stats, AllocatedForPeer over 1-3 peers), scheduled at operation starts and - lock-yield build of allocator/allocator.go - before every lock acquisition inside the allocator; the recorded history (invoke/return stamped with a global event counter) plus a last observation of every allocation's fate is checked for linearizability against the same model with porcupine (Illegal = violation, Unknown = inconclusive, counted)",
     _b(3000, 60, 200000, 900), real_vs_stub=RVS_ALLOC, technique="seeded operation histories against an executable reference model (real component, no stubs); concurrent callers over a lock-yield build, linearizability by porcupine",
     probes=["alloc-calls-overlapped-inside-the-allocator"], lock_yield_files=["allocator/allocator.go"])
prop("C14", "exploration",
     "same harness as C13; after every operation the state of every result channel handed out so far (granted / failed / not yet) is compared with the model's prediction: immediate grant iff it fits both limits and the peer has nothing waiting; per-peer FIFO; earliest-requested head that fits its own peer's limit first; stop when it does not fit the total; release-peer fails all of that peer's waiters at once; second family (every other run): 2-3 callers, each a goroutine with a script of its own (allocate, release, release-peer, Stats, AllocatedForPeer over 1-3 peers), scheduled at operation starts and - lock-yield build of allocator/allocator.go - before every lock acquisition inside the allocator; the recorded history (invoke/return stamped with a global event counter) plus a last observation of every allocation's fate is checked for linearizability against the same model with porcupine (Illegal = violation, Unknown = inconclusive, counted)",
     _b(3000, 60, 200000, 900), real_vs_stub=RVS_ALLOC, technique="seeded operation histories against an executable reference model (real component, no stubs); concurrent callers over a lock-yield build, linearizability by porcupine",
     probes=["alloc-calls-overlapped-inside-the-allocator"], lock_yield_files=["allocator/allocator.go"])

prop("C18", "exploration",
     "component harness: the real notifications publisher with 2-4 topics and 2-4 recording subscribers whose OnNext/OnClose park at scheduler gates (a slow subscriber lets commands pile up behind it); generated histories of 5-40 subscribe / publish / unsubscribe / close-topic / shutdown calls; every subscriber's per-topic sequence of events and end-of-subscription notices is compared with an executable model evaluated over the issue order; distinct = distinct trace hash",
     _b(3000, 60, 200000, 900), real_vs_stub=RVS_PUB, probes=["c18-concurrent-subscription-checked"], lock_yield_files=["notifications/publisher.go"], technique="seeded operation histories and callback schedules against an executable reference model (real component; subscribers are stubs)")

prop("C19", "exploration",
     "component harness: the real response assembler (peerLinkTracker + linktracker + responseBuilder) driven through ResponseStream transactions with a capturing message handler; generated histories (10-60 operations) interleave link traversals (6 CIDs, present or missing) of 2-5 requests of one peer with dedup-key assignments (two keys and the default scope), ignore lists, skip counts, FinishRequest and ClearRequest, then one later request that re-traverses everything; each send decision, block index and completeness status is compared with an executable model written from the statement; second family (every other run): 2-4 requests each served by a goroutine of its own, the scheduler choosing when each operation starts and - the test binary of this property is built against a scratch copy of /repo in which tools/lockyield has put a scheduling point before every lock acquisition of the tracker's files - where inside the tracker it is overtaken; two traversals of one block that are both told to send while neither request has begun to finish are a violation; distinct = distinct trace hash",
     _b(3000, 60, 200000, 900), real_vs_stub=RVS_LT, technique="seeded operation histories against an executable reference model (real component; message handler and subscriber are stubs); concurrent callers over a lock-yield build",
     probes=["c19-traversals-overlapped-inside-the-tracker"],
     lock_yield_files=["responsemanager/responseassembler/peerlinktracker.go", "responsemanager/responseassembler/responseassembler.go", "linktracker/linktracker.go"])

_MQ = "component world: the real message queue, peer manager, allocator and publisher over the simulated network (real libp2p_impl.go codec and stream handling, scripted receiving peers); 2-11 queued operations (blocks of 100-300 B and occasionally 300 KiB so that two do not fit one message, extension data, status codes) for 1-3 requests of 1-2 peers, each operation carrying a unique marker so that reports can be attributed; Connected/Disconnected notifications in drawn number and order; send faults (fail, lost ack, stall until the write deadline), connect failures, 1-3 retries; a random subset of seven internal yield points (after the reservation, after the build, on entering the done arm, before the queue exits, before Shutdown in Disconnected, in the GetProcess miss window, between GetProcess and the call) is active per run"
prop("C15", "fault_enumeration", _MQ + "; oracle: once all queues are idle AllocatedForPeer and Stats are zero; distinct = distinct trace hash",
     _b(2000, 60, 100000, 1200), real_vs_stub=RVS_MQ, lock_yield_files=["peermanager/peermanager.go", "messagequeue/messagequeue.go", "allocator/allocator.go", "notifications/publisher.go"], probes=["mq-conn", "mq-disc", "send-stalled"], technique="deterministic simulation of the real component with seeded fault placement and internal yield points")
prop("C16", "exploration", _MQ + "; oracle: every operation built into a message is listed in exactly one Sent or Error report; per attached party and message at most one Queued, exactly one Sent/Error, then exactly one close; distinct = distinct trace hash",
     _b(2000, 60, 100000, 1200), real_vs_stub=RVS_MQ, lock_yield_files=["peermanager/peermanager.go", "messagequeue/messagequeue.go", "allocator/allocator.go", "notifications/publisher.go"], probes=["mq-conn", "mq-disc"], technique="deterministic simulation of the real component with seeded fault placement and internal yield points")
prop("C17", "exploration", _MQ + "; oracle: never two live queue goroutines for one peer (observation hook at start and exit), none alive after the last disconnect, blocks reach the wire in build order; distinct = distinct trace hash",
     _b(2000, 60, 100000, 1200), real_vs_stub=RVS_MQ, lock_yield_files=["peermanager/peermanager.go", "messagequeue/messagequeue.go", "allocator/allocator.go", "notifications/publisher.go"], probes=["mq-conn", "mq-disc", "c17-message-order-compared"], technique="deterministic simulation of the real component with seeded fault placement and internal yield points")

prop("C11", "exploration",
     "weak fit, stated as such: the verdict is a function of the message, the simulator adds stream behaviour. Two scripted peers exchange 1-6 generated well-formed messages per run on one stream through the real libp2p_impl.go / v2 codec with fragmented delivery (arbitrary byte counts per read): new/cancel/update requests with zero, negative and extreme priorities, generated selectors and 0-3 extensions (nil, null, scalars, bytes, links, nested maps and lists), responses with every defined status, every link action and 0-4 metadata entries, blocks under CIDv0/dag-pb, identity, sha2-512, dag-cbor and raw prefixes; decoded messages are compared field by field and in order with what was sent; the three extension codecs are round-tripped on generated values; distinct = distinct trace hash",
     _b(1500, 60, 100000, 900), real_vs_stub=RVS_CODEC, technique="deterministic simulation of the transport with fragmented delivery; seeded input generation for the codec")

prop("C12", "exploration",
     "weak fit, stated as such (coverage-guided fuzzing serves the input space far better). A real node runs an honest exchange with a real responder while a scripted hostile peer writes 1-5 raw byte strings, each on a stream of its own, to the node or to a scripted receiver: encodings of generated well-formed messages mutated by bit flips, truncation, oversize length prefix, unterminated varint, insertion, splice, wrong CBOR kinds (or unchanged); oracle: the worker process survives (crash attribution by the parent), the honest exchange delivers exactly the reference result, every message that decodes carries blocks keyed by the CID of their own bytes and 16-byte request IDs, every undecodable message sent to the node is reported as a receive error; distinct = distinct trace hash",
     _b(1500, 60, 100000, 900), crash_is_violation=True, technique="deterministic simulation with byte-corruption fault injection on streams")
prop("C08", "exploration",
     "weakest fit, stated as such: the verdict is a pure function of the selector; the simulator only hosts the input sampling and shows that load does not change the verdict. A scripted requestor sends 1-5 generated selector specs (every explore clause kind, nested recursion, unions, interpret-as wrappers, limits 1-20, 99, 100, 101, 1000000 and none) to a default-configured real responder while an honest exchange runs; an independent walk over the spec's data-model form decides whether it contains a recursion that is unbounded or deeper than 100; the wire status must be RequestRejected exactly then; distinct = distinct trace hash",
     _b(1500, 60, 100000, 900), technique="seeded input generation hosted by the deterministic simulator; independent reference predicate")

# What the worlds gained after the first round (mostly from seeded changes that were missed at first; DESIGN.md §14)
_EXT = {
 "C01": "adversary also plays on the hash function of a block's CID (the link's digest as an identity-hash block, the genuine bytes under another hash function); DAGs with empty raw leaves and codec-alias leaves (same bytes under raw and dag-cbor); disk faults at the requestor: a local read may stop half way (short read with io.ErrUnexpectedEOF, or an I/O error in mid-stream) in a quarter of the runs with a local store",
 "C02": "field names that are textual prefixes of siblings, two-digit list indices, empty raw leaves, codec-alias leaves; the recorded skip-count class is the two peers' link sequences diverging within the skipped prefix",
 "C03": "empty raw leaves and codec-alias leaves",
 "C04": "buggify yields in the task workers and after the queue returns memory; refuse-heavy runs (several failure statuses per message); caller context cancelled during request set-up; back-pressure family (small responder memory allowance, optionally fail-fast sends); a third of the runs are lock-yield runs (DESIGN 13.8): a goroutine may be held before a lock acquisition of the sending path made with no instrumented lock held; signatures of the recorded queue-shutdown class and of the residual f6868ad window carry their input-class tag",
 "C05": "same additions as C04; a response reported failed on the network must not later complete successfully; same additions as C04",
 "C23": "same additions as C04; same additions as C04; a lock-yield point before TaskDone (never on a manager's event loop)",
 "C06": "runs with a responder that lacks 30% of the blocks; empty and codec-alias leaves; a third of the quiet runs may hold a goroutine before TaskDone's lock (lock-yield build, function filter), which does not count against 'quiet'; the resumed response of a quiet requestor pause is also checked on the wire: no block within the re-request's skip count is transmitted",
 "C07": "a second request after the first with a per-request budget of its own; 35% of responder-side runs on a responder that lacks blocks (every link tried is charged and is one metadata entry, found or not)",
 "C08": "specs wrapped in up to 150 further clauses of one kind or in rotation; a quarter of the runs have an admission hook that pauses the scripted peer's requests without validating them and an operator who releases them",
 "C09": "a second victim request; intruder messages naming r1, r2 and an unknown ID in any combination; the response data handed to each block hook must be one the genuine responder sent; a third of the runs may hold a goroutine before it hands a message to the request manager's event loop (call points, DESIGN 13.8)",
 "C10": "the other peer may come first and may be refused by a request hook; a single-worker responder kept busy by an earlier request; a coherent stale-task variant; nothing may run for a retired request of the other peer while the first peer holds the ID; a paused response stays paused; a third of the runs may hold a goroutine before it hands a message to the response manager's event loop (call points, DESIGN 13.8); the stale-task input class is keyed on the worker having taken the task before the retirement",
 "C11": "all messages written to one stream with ToNet and read back one by one with FromNet from a reader with drawn fragment sizes; extension codec values start with the boundaries; 1 run in 25 adds a message with a 2-4 MiB block (frame near network.MessageSizeMax) to the stream",
 "C12": "request-ID byte strings of other lengths in well-framed messages; well-formed CBOR with hostile content (new request without root or selector, non-selectors, complete requests whose well-known extensions carry null or values of the wrong kind); a complete frame that does not decode is malformed whatever error the decoder names; the stream of a malformed message must be reset",
 "C15": "a ledger between the real queue and the real allocator (a release never exceeds what is reserved and not yet returned; nothing is built without a grant); a call kind whose build function adds nothing; backlog runs (callers outrun the sender); a third of the runs are lock-yield runs over peermanager.go, messagequeue.go, allocator.go, publisher.go (the ledger's own mutex counts as a lock held); a Disconnected is notified only after a Connected call it can belong to has returned",
 "C16": "same component world as C15; same component world as C15",
 "C17": "the order rule compares the block CIDs the receiver computes; backlog runs; more block traffic in big-block runs; same component world as C15",
 "C18": "25% of runs are long bursts against slow subscribers (command queue backs up beyond 32 entries); second family: 2-3 concurrent callers over a lock-yield build of publisher.go, oracle valid for every order of overlapping calls",
 "C19": "responses may also be ended with FinishWithError and may be paused; the tracker's tables are read (lengths, by reflection) whenever a request stops being tracked or is paused",
 "C20": "one sibling may be cancelled or paused for good by its caller; a named deduplication scope with a store of its own (persistence option) that most requests of a run may use, optionally with do-not-send-cids for what that store holds; every commit is checked against the block its CID names; a loss is classified by whether a sibling that had been sent the block was still in progress at the responder; a sibling may be held at the responder by a block hook and cancelled by its caller meanwhile; a cancelled sibling counts as gone once the responder's requestor-cancelled listener has fired; the loss classifier compares full CIDs",
 "C21": "a guarded yield between a worker's pop and StartTask; responder-side pause at a block and operator resume",
 "C22": "40% of runs build the node whose code panics without a PanicCallback option; ending without an error is accepted only for a requestor-side read, and then every loaded block must be stored; half of the reifier runs use a reifier that asks the traversal for a further block before it panics, and in 70% of those the victim is cancelled (caller context, Cancel API, responder's operator) while the block before is fetched, so that the panic follows the cancel; a responder-side panic after the last block was sent counts as reported when the response's last status on the wire is a failure",
 "C24": "the request may live in a named scope that a second, unrelated request joins at a drawn step; empty and codec-alias leaves",
 "C25": "the responder's operator may cancel the stalled peer's response once or twice; any handler the actor loop is stuck in counts as loop-blocked; a run that never settles because a node goroutine waits for a lock is classified from the goroutine dump (DESIGN 13.7) and reported as CRASH lockwait",
}
for _p, _t in _EXT.items():
    META[_p]["rule"] += " | added later: " + _t
